// vcheck <ID> [quick|thorough] [--replay file]
package main

import (
	"fmt"
	"os"
	"runtime/debug"

	"verifharness/internal/core"
	"verifharness/internal/props"
)

func main() {
	if len(os.Args) < 2 {
		fmt.Println("usage: vcheck <ID> [quick|thorough] [--replay file]")
		os.Exit(2)
	}
	id := os.Args[1]
	if w, ok := props.Workers[id]; ok {
		os.Exit(w(os.Args[2:])) // internal: an isolated worker process of some check
	}
	tier := os.Getenv("VERIF_TIER")
	replay := ""
	for i := 2; i < len(os.Args); i++ {
		switch os.Args[i] {
		case "quick", "thorough":
			tier = os.Args[i]
		case "--replay":
			if i+1 < len(os.Args) {
				replay = os.Args[i+1]
				i++
			}
		}
	}
	if tier != "thorough" {
		tier = "quick"
	}
	chk, ok := props.Registry[id]
	if !ok {
		fmt.Printf("INFRA: no check registered for %s\n", id)
		os.Exit(2)
	}
	run := core.NewRun(id, tier)
	run.Level = chk.Level
	code := func() (code int) {
		defer func() {
			if e := recover(); e != nil {
				run.Cleanup()
				if inf, ok := e.(core.Infra); ok {
					fmt.Printf("INFRA: property=%s %s\n", id, inf.Msg)
				} else {
					fmt.Printf("INFRA: property=%s panic in harness: %v\n%s\n", id, e, debug.Stack())
				}
				code = 2
			}
		}()
		if replay != "" {
			if chk.Replay == nil {
				core.Fail("no replay entry point for %s", id)
			}
			chk.Replay(run, replay)
		} else {
			chk.Run(run)
		}
		return run.Finish()
	}()
	os.Exit(code)
}
