module verifharness

go 1.18

require github.com/mithrandie/csvq v0.0.0

require (
	github.com/mitchellh/go-homedir v1.1.0 // indirect
	github.com/mithrandie/go-file/v2 v2.1.0 // indirect
	github.com/mithrandie/go-text v1.6.0 // indirect
	github.com/mithrandie/ternary v1.1.1 // indirect
	golang.org/x/crypto v0.7.0 // indirect
	golang.org/x/sys v0.6.0 // indirect
	golang.org/x/term v0.6.0 // indirect
	golang.org/x/text v0.8.0 // indirect
)

replace github.com/mithrandie/csvq => /repo
