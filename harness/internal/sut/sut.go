// Package sut drives the real csvq code: in-process (query.Session/Transaction/Processor)
// and as the real binary.
package sut

import (
	"bytes"
	"context"
	"encoding/json"
	"fmt"
	"os"
	"os/exec"
	"path/filepath"
	"sort"
	"strings"
	"syscall"
	"time"

	"github.com/mithrandie/csvq/lib/file"
	"github.com/mithrandie/csvq/lib/parser"
	"github.com/mithrandie/csvq/lib/query"
)

// ---------- in-process ----------

type Proc struct {
	Dir  string
	Sess *query.Session
	Tx   *query.Transaction
	Proc *query.Processor
	Out  *query.Output
	Err  *query.Output
	Ctx  context.Context
	User map[string]interface{} // per-history state of the harness
}

type Res struct {
	Out   string // what the statement wrote to stdout
	Log   string // what it wrote to stderr
	Err   string // error message ("" = none)
	Code  int    // csvq error code (0 = none)
	Num   int    // csvq error number
	Flow  query.StatementFlow
	Fatal bool // internal failure: "Fatal Error", panic
}

// NewProc creates an isolated session + transaction whose repository is dir.
func NewProc(dir string, flags map[string]interface{}) (*Proc, error) {
	return NewProcCtx(context.Background(), dir, flags)
}

func NewProcCtx(ctx context.Context, dir string, flags map[string]interface{}) (*Proc, error) {
	sess := query.NewSession()
	out, errw := query.NewOutput(), query.NewOutput()
	sess.SetStdout(out)
	sess.SetStderr(errw)
	sess.CanReadStdin = false
	tx, err := query.NewTransaction(ctx, file.DefaultWaitTimeout, file.DefaultRetryDelay, sess)
	if err != nil {
		return nil, err
	}
	p := &Proc{Dir: dir, Sess: sess, Tx: tx, Proc: query.NewProcessor(tx), Out: out, Err: errw, Ctx: ctx, User: map[string]interface{}{}}
	if err := tx.SetFlag("repository", dir); err != nil {
		return nil, err
	}
	if err := tx.SetFormatFlag("JSON", ""); err != nil {
		return nil, err
	}
	_ = tx.SetFlag("cpu", int64(1))
	keys := make([]string, 0, len(flags))
	for k := range flags {
		keys = append(keys, k)
	}
	sort.Strings(keys)
	for _, k := range keys {
		var e error
		if strings.EqualFold(k, "format") {
			e = tx.SetFormatFlag(flags[k], "")
		} else {
			e = tx.SetFlag(k, flags[k])
		}
		if e != nil {
			return nil, fmt.Errorf("flag %s: %v", k, e)
		}
	}
	return p, nil
}

// Exec parses and executes sql the way the interactive shell does (an error ends the
// statement list but not the transaction).
func (p *Proc) Exec(sql string) (res Res) {
	p.Out.Reset()
	p.Err.Reset()
	defer func() {
		if r := recover(); r != nil {
			res.Fatal = true
			res.Err = fmt.Sprintf("panic: %v", r)
			res.Code = 1
		}
		res.Out = p.Out.String()
		res.Log = p.Err.String()
	}()
	stmts, _, err := parser.Parse(sql, "", false, p.Tx.Flags.AnsiQuotes)
	if err != nil {
		e := query.NewSyntaxError(err.(*parser.SyntaxError))
		res.Err = e.Error()
		if qe, ok := e.(query.Error); ok {
			res.Code, res.Num = qe.Code(), qe.Number()
		}
		return
	}
	flow, err := p.Proc.Execute(p.Ctx, stmts)
	res.Flow = flow
	if err != nil {
		res.Err = err.Error()
		res.Code = 1
		if qe, ok := err.(query.Error); ok {
			res.Code, res.Num = qe.Code(), qe.Number()
		}
		if _, ok := err.(*query.FatalError); ok || strings.Contains(res.Err, "Fatal Error") {
			res.Fatal = true
		}
	}
	return
}

// End mimics the deferred part of cli.commandAction: rollback + release.
func (p *Proc) End() {
	defer func() { _ = recover() }()
	_ = p.Proc.AutoRollback()
	_ = p.Proc.ReleaseResourcesWithErrors()
}

// ---------- JSON result projection ----------

// Cell is the text of a cell plus a NULL marker; T is the JSON type seen (s, n, b, z)
type Cell struct {
	Null bool
	Text string
	T    byte
}

func (c Cell) String() string {
	if c.Null {
		return "NULL"
	}
	return c.Text
}

type Table struct {
	Header []string
	Rows   [][]Cell
}

// ParseJSONTables parses the concatenated JSON arrays csvq prints with -f JSON
// (one array of objects per SELECT). Column order is the order in the text.
func ParseJSONTables(out string) ([]Table, error) {
	dec := json.NewDecoder(strings.NewReader(out))
	dec.UseNumber()
	var tables []Table
	for {
		tok, err := dec.Token()
		if err != nil {
			break
		}
		if d, ok := tok.(json.Delim); !ok || d != '[' {
			return nil, fmt.Errorf("unexpected token %v", tok)
		}
		var t Table
		for dec.More() {
			tok, err := dec.Token()
			if err != nil {
				return nil, err
			}
			if d, ok := tok.(json.Delim); !ok || d != '{' {
				return nil, fmt.Errorf("unexpected token %v in array", tok)
			}
			var row []Cell
			var hdr []string
			for dec.More() {
				k, err := dec.Token()
				if err != nil {
					return nil, err
				}
				hdr = append(hdr, k.(string))
				var raw json.RawMessage
				if err := dec.Decode(&raw); err != nil {
					return nil, err
				}
				row = append(row, cellOf(raw))
			}
			if _, err := dec.Token(); err != nil {
				return nil, err
			}
			if t.Header == nil {
				t.Header = hdr
			}
			t.Rows = append(t.Rows, row)
		}
		if _, err := dec.Token(); err != nil {
			return nil, err
		}
		tables = append(tables, t)
	}
	return tables, nil
}

func cellOf(raw json.RawMessage) Cell {
	s := strings.TrimSpace(string(raw))
	switch {
	case s == "null":
		return Cell{Null: true, T: 'z'}
	case strings.HasPrefix(s, `"`):
		var v string
		_ = json.Unmarshal(raw, &v)
		return Cell{Text: v, T: 's'}
	case s == "true" || s == "false":
		return Cell{Text: s, T: 'b'}
	default:
		return Cell{Text: s, T: 'n'}
	}
}

// ---------- files ----------

// WriteCSV writes a table as csvq-readable CSV: NULL as an empty unquoted field, text quoted.
func WriteCSV(path string, header []string, rows [][]Cell) error {
	var b bytes.Buffer
	for i, h := range header {
		if i > 0 {
			b.WriteByte(',')
		}
		b.WriteString(h)
	}
	b.WriteByte('\n')
	for _, r := range rows {
		for i, c := range r {
			if i > 0 {
				b.WriteByte(',')
			}
			if !c.Null {
				b.WriteByte('"')
				b.WriteString(strings.ReplaceAll(c.Text, `"`, `""`))
				b.WriteByte('"')
			}
		}
		b.WriteByte('\n')
	}
	return os.WriteFile(path, b.Bytes(), 0644)
}

// Snapshot returns name -> content of every entry in dir (directories as "<dir>").
func Snapshot(dir string) map[string]string {
	m := map[string]string{}
	ents, _ := os.ReadDir(dir)
	for _, e := range ents {
		if e.IsDir() {
			m[e.Name()] = "<dir>"
			continue
		}
		b, err := os.ReadFile(filepath.Join(dir, e.Name()))
		if err != nil {
			m[e.Name()] = "<unreadable>"
		} else {
			m[e.Name()] = string(b)
		}
	}
	return m
}

// ControlFiles lists hidden lock/rlock/temp files in dir.
func ControlFiles(dir string) []string {
	var l []string
	ents, _ := os.ReadDir(dir)
	for _, e := range ents {
		n := e.Name()
		if strings.HasPrefix(n, ".") && (strings.HasSuffix(n, ".lock") || strings.HasSuffix(n, ".rlock") || strings.HasSuffix(n, ".temp")) {
			l = append(l, n)
		}
	}
	sort.Strings(l)
	return l
}

// ---------- binary ----------

type BinRes struct {
	Exit     int
	Signaled bool
	Stdout   string
	Stderr   string
	TimedOut bool
	Wall     time.Duration
}

type BinOpts struct {
	Csvq    string
	Dir     string   // working directory and HOME of the process
	Args    []string // full argument list
	Env     []string // additional environment
	Stdin   string
	Timeout time.Duration
}

func RunBin(o BinOpts) BinRes {
	cmd := exec.Command(o.Csvq, o.Args...)
	cmd.Dir = o.Dir
	cmd.Env = append([]string{"HOME=" + o.Dir, "XDG_CONFIG_HOME=" + filepath.Join(o.Dir, ".cfg"), "TZ=UTC", "PATH=/usr/bin:/bin"}, o.Env...)
	var so, se bytes.Buffer
	cmd.Stdout, cmd.Stderr = &so, &se
	if o.Stdin != "" {
		cmd.Stdin = strings.NewReader(o.Stdin)
	}
	to := o.Timeout
	if to == 0 {
		to = 30 * time.Second
	}
	start := time.Now()
	var r BinRes
	if err := cmd.Start(); err != nil {
		r.Exit = -1
		r.Stderr = err.Error()
		return r
	}
	timer := time.AfterFunc(to, func() { _ = cmd.Process.Kill() })
	err := cmd.Wait()
	r.TimedOut = !timer.Stop()
	r.Wall = time.Since(start)
	r.Stdout, r.Stderr = so.String(), se.String()
	if err != nil {
		if ee, ok := err.(*exec.ExitError); ok {
			if ws, ok := ee.Sys().(syscall.WaitStatus); ok && ws.Signaled() {
				r.Signaled = true
				r.Exit = 128 + int(ws.Signal())
			} else {
				r.Exit = ee.ExitCode()
			}
		} else {
			r.Exit = -1
		}
	}
	return r
}

// IsFatal tells whether a binary run shows an internal failure.
func (r BinRes) IsFatal() bool {
	return r.TimedOut || strings.Contains(r.Stderr, "Fatal Error") || strings.Contains(r.Stderr, "panic:") || strings.Contains(r.Stderr, "goroutine ")
}
