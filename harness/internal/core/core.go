// Package core holds what every property check shares: the run context, verdict
// bookkeeping (VIOLATION / KNOWN-FINDING / infrastructure), evidence files and
// scratch directories.
package core

import (
	"crypto/sha1"
	"encoding/json"
	"fmt"
	"math/rand"
	"os"
	"path/filepath"
	"sort"
	"strconv"
	"strings"
	"sync"
	"time"
)

// VerifDir is the root of the verification tree (set by bin/check from its own location).
var VerifDir = func() string {
	if d := os.Getenv("VERIF_DIR"); d != "" {
		return d
	}
	return "/verif"
}()

// Infra is panicked with to abort a run for an infrastructure reason (exit 2).
type Infra struct{ Msg string }

func Fail(format string, a ...interface{}) {
	panic(Infra{fmt.Sprintf(format, a...)})
}

type Finding struct {
	Property  string `json:"property"`
	Signature string `json:"signature"`
	What      string `json:"what"`
}

type KnownFile struct {
	Findings []Finding `json:"findings"`
	Fixed    []string  `json:"fixed"`
}

type Run struct {
	ID       string
	Tier     string
	Seed     int64
	Level    string
	Work     string // scratch directory of this run (removed at the end)
	Repo     string
	Csvq     string // path of the csvq binary built with -tags verif
	Start    time.Time
	Rand     *rand.Rand
	Thorough bool

	mtx        sync.Mutex
	known      []Finding
	knownSeen  map[string]int
	violations []string
	nviol      int
	Coverage   map[string]interface{}
	Assume     []string
	samples    []interface{}
	counters   map[string]int
	distinct   map[string]struct{}
}

func NewRun(id, tier string) *Run {
	seed := int64(1)
	if s := os.Getenv("VERIF_SEED"); s != "" {
		if v, err := strconv.ParseInt(s, 10, 64); err == nil {
			seed = v
		}
	}
	repo := os.Getenv("VERIF_REPO")
	if repo == "" {
		repo = "/repo"
	}
	r := &Run{
		ID: id, Tier: tier, Seed: seed, Repo: repo, Csvq: os.Getenv("VERIF_CSVQ"),
		Start: time.Now(), Rand: rand.New(rand.NewSource(seed)), Thorough: tier == "thorough",
		knownSeen: map[string]int{}, Coverage: map[string]interface{}{}, counters: map[string]int{},
		distinct: map[string]struct{}{},
	}
	r.Work = filepath.Join(VerifDir, ".work", fmt.Sprintf("%s.%d", id, os.Getpid()))
	_ = os.RemoveAll(r.Work)
	if err := os.MkdirAll(r.Work, 0755); err != nil {
		Fail("mkdir work: %v", err)
	}
	// isolate csvq's configuration lookups (csvq_env.json, csvqrc) from the machine
	home := filepath.Join(r.Work, "home")
	_ = os.MkdirAll(home, 0755)
	_ = os.Setenv("HOME", home)
	_ = os.Setenv("XDG_CONFIG_HOME", filepath.Join(home, "cfg"))
	_ = os.Setenv("TZ", "UTC")
	_ = os.Chdir(home)

	var kf KnownFile
	if b, err := os.ReadFile(filepath.Join(VerifDir, "known_findings.json")); err == nil {
		if err := json.Unmarshal(b, &kf); err != nil {
			Fail("known_findings.json: %v", err)
		}
	}
	for _, f := range kf.Findings {
		if f.Property == id {
			r.known = append(r.known, f)
		}
	}
	return r
}

// Dir returns a fresh scratch directory below the run's work directory.
func (r *Run) Dir(name string) string {
	d := filepath.Join(r.Work, name)
	_ = os.RemoveAll(d)
	if err := os.MkdirAll(d, 0755); err != nil {
		Fail("mkdir: %v", err)
	}
	return d
}

func (r *Run) Count(key string, n int) {
	r.mtx.Lock()
	r.counters[key] += n
	r.mtx.Unlock()
}

func (r *Run) Counter(key string) int {
	r.mtx.Lock()
	defer r.mtx.Unlock()
	return r.counters[key]
}

// Distinct records a case key; returns true when it was new.
func (r *Run) Distinct(key string) bool {
	h := sha1.Sum([]byte(key))
	k := string(h[:10])
	r.mtx.Lock()
	defer r.mtx.Unlock()
	if _, ok := r.distinct[k]; ok {
		return false
	}
	r.distinct[k] = struct{}{}
	return true
}

func (r *Run) DistinctCount() int {
	r.mtx.Lock()
	defer r.mtx.Unlock()
	return len(r.distinct)
}

func (r *Run) Sample(v interface{}) {
	r.mtx.Lock()
	if len(r.samples) < 6 {
		r.samples = append(r.samples, v)
	}
	r.mtx.Unlock()
}

// Violation reports a reproduced property violation with a structural signature.
// A signature listed in known_findings.json prints KNOWN-FINDING (once) instead.
func (r *Run) Violation(signature string, what string, replay interface{}) {
	r.mtx.Lock()
	defer r.mtx.Unlock()
	for _, f := range r.known {
		// a listed signature may end its segments with "*" (one listed finding = one failing input class, e.g. "LPAD with
		// a huge length, whatever the pad string"); the line is printed once per listed finding
		if f.Signature == signature || (strings.Contains(f.Signature, "*") && globMatch(f.Signature, signature)) {
			if r.knownSeen[f.Signature] == 0 {
				fmt.Printf("KNOWN-FINDING: property=%s %s [%s]\n", r.ID, f.What, f.Signature)
			}
			r.knownSeen[f.Signature]++
			return
		}
	}
	r.nviol++
	if r.nviol > 20 {
		return
	}
	h := sha1.Sum([]byte(signature + what))
	name := fmt.Sprintf("%s-%x.json", r.ID, h[:6])
	path := filepath.Join(VerifDir, "replays", name)
	_ = os.MkdirAll(filepath.Dir(path), 0755)
	b, _ := json.MarshalIndent(map[string]interface{}{
		"property": r.ID, "signature": signature, "what": what, "seed": r.Seed, "tier": r.Tier, "case": replay,
	}, "", " ")
	_ = os.WriteFile(path, b, 0644)
	fmt.Printf("VIOLATION property=%s replay=%s\n", r.ID, path)
	fmt.Printf("  signature=%s\n  %s\n", signature, strings.ReplaceAll(what, "\n", "\n  "))
	r.violations = append(r.violations, signature)
}

func (r *Run) Violations() int { return r.nviol }

// Finish writes the evidence file and returns the exit code.
func (r *Run) Finish() int {
	cov := r.Coverage
	r.mtx.Lock()
	if _, ok := cov["samples"]; !ok {
		if len(r.samples) == 0 {
			r.samples = append(r.samples, "none")
		}
		cov["samples"] = r.samples
	}
	keys := make([]string, 0, len(r.counters))
	for k := range r.counters {
		keys = append(keys, k)
	}
	sort.Strings(keys)
	cnt := map[string]int{}
	for _, k := range keys {
		cnt[k] = r.counters[k]
	}
	cov["counters"] = cnt
	if _, ok := cov["distinct_nontrivial"]; !ok {
		cov["distinct_nontrivial"] = len(r.distinct)
	}
	ks := map[string]int{}
	for k, v := range r.knownSeen {
		ks[k] = v
	}
	cov["known_findings_seen"] = ks
	r.mtx.Unlock()

	ev := map[string]interface{}{
		"property_id": r.ID, "tier": r.Tier, "seed": r.Seed, "level": r.Level,
		"coverage": cov, "assumptions": r.Assume,
		"wall_s": time.Since(r.Start).Seconds(), "violations": r.nviol,
	}
	b, _ := json.MarshalIndent(ev, "", " ")
	// evidence describes /repo; a run against another checkout (the seeded-change matrix) keeps its record apart
	evdir := "evidence"
	if alt := os.Getenv("VERIF_REPO"); alt != "" && alt != "/repo" {
		evdir = filepath.Join(".work", "evidence-alt")
	}
	_ = os.MkdirAll(filepath.Join(VerifDir, evdir), 0755)
	if err := os.WriteFile(filepath.Join(VerifDir, evdir, r.ID+".json"), b, 0644); err != nil {
		fmt.Println("INFRA: cannot write evidence:", err)
		return 2
	}
	_ = os.RemoveAll(r.Work)
	if r.nviol > 0 {
		return 1
	}
	fmt.Printf("OK property=%s tier=%s seed=%d wall=%.1fs\n", r.ID, r.Tier, r.Seed, time.Since(r.Start).Seconds())
	return 0
}

func (r *Run) Cleanup() { _ = os.RemoveAll(r.Work) }

// Parallel runs fn(i) for i in [0,n) on up to w goroutines.
func Parallel(n, w int, fn func(i int)) {
	if w < 1 {
		w = 1
	}
	var wg sync.WaitGroup
	ch := make(chan int)
	var pmtx sync.Mutex
	var perr interface{}
	for k := 0; k < w; k++ {
		wg.Add(1)
		go func() {
			defer wg.Done()
			for i := range ch {
				func() {
					defer func() {
						if e := recover(); e != nil {
							pmtx.Lock()
							if perr == nil {
								perr = e
							}
							pmtx.Unlock()
						}
					}()
					fn(i)
				}()
			}
		}()
	}
	for i := 0; i < n; i++ {
		ch <- i
	}
	close(ch)
	wg.Wait()
	if perr != nil {
		panic(perr)
	}
}

func JSON(v interface{}) string {
	b, _ := json.Marshal(v)
	return string(b)
}

// NewRand returns a deterministic generator for a derived seed.
func NewRand(seed int64) *rand.Rand { return rand.New(rand.NewSource(seed)) }

// globMatch: "*" in the pattern matches any run of characters.
func globMatch(pattern, s string) bool {
	parts := strings.Split(pattern, "*")
	if !strings.HasPrefix(s, parts[0]) {
		return false
	}
	s = s[len(parts[0]):]
	for i := 1; i < len(parts); i++ {
		p := parts[i]
		if i == len(parts)-1 {
			return strings.HasSuffix(s, p)
		}
		k := strings.Index(s, p)
		if k < 0 {
			return false
		}
		s = s[k+len(p):]
	}
	return true
}
