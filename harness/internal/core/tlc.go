package core

import (
	"bufio"
	"bytes"
	"encoding/json"
	"fmt"
	"io"
	"os"
	"os/exec"
	"path/filepath"
	"regexp"
	"strconv"
	"strings"
	"time"
)

type TLCOpts struct {
	Module   string            // module name (file Module.tla in spec dir)
	Cfg      string            // cfg file name in spec dir, or "" when CfgText is given
	CfgText  string            // literal cfg contents
	Workers  int               // 0 = auto
	Simulate string            // e.g. "num=500" ; "" = BFS
	Depth    int               // -depth for simulation
	Seed     int64             // -seed (simulation)
	Timeout  time.Duration     // wall clock limit
	Files    map[string]string // extra files to place in the scratch dir (name -> path to copy)
	Texts    map[string]string // extra files with literal content
	Defines  map[string]string // overrides: generates a wrapper module "<Module>_run" with these definitions? (unused)
	Coverage bool
	DFS      bool                      // use StateDeque queue (depth-first) for trace validation
	OnTrace  func(raw json.RawMessage) // called for each <<"TRACE", "...">> line
	OnObs    func(line string)         // called for each line starting with <<"OBS"
	KeepOut  bool
	Env      []string
	Dump     string // if set: -dump dot,actionlabels <file>

	noRetry     bool // internal: this is already a buffered attempt
	softTimeout bool // internal: a timeout is reported in the result instead of ending the check
}

type TLCResult struct {
	Generated  int
	Distinct   int
	Depth      int
	Traces     int
	OK         bool   // "No error has been found"
	Violated   string // name of violated invariant/property/postcondition, "" if none
	ErrorText  string // first error block
	Output     string
	Wall       float64
	CoverageOf map[string]int // action name -> distinct states count (when Coverage)
	TimedOut   bool           // killed at the soft time limit (generator runs only)
}

var (
	reStates   = regexp.MustCompile(`(\d+) states generated, (\d+) distinct states found`)
	reSimStat  = regexp.MustCompile(`The number of states generated: (\d+)`)
	reDepth    = regexp.MustCompile(`The depth of the complete state graph search is (\d+)`)
	reInv      = regexp.MustCompile(`Invariant (\S+) is violated`)
	reProp     = regexp.MustCompile(`(?:Action property|Temporal properties were violated|property) ?(\S*) (?:is|was) violated`)
	reCoverage = regexp.MustCompile(`^<(\w+) line \d+, col \d+ to line \d+, col \d+ of module (\w+)>: (\d+):(\d+)`)
)

// RunTLC runs TLC on a module of /verif/spec in a scratch copy.
// RunTLC runs TLC once; a generator run (simulation with a trace callback) that does not end within a quarter of its
// time limit is killed and started once more (a JVM that hung on an overloaded machine was seen once): the traces are
// buffered and handed to the callback only when the run has ended.
func (r *Run) RunTLC(o TLCOpts) *TLCResult {
	if o.Simulate == "" || o.OnTrace == nil || o.noRetry {
		return r.runTLC(o)
	}
	full := o.Timeout
	if full == 0 {
		full = 10 * time.Minute
	}
	var res *TLCResult
	for try := 0; try < 2; try++ {
		var buf []json.RawMessage
		o2 := o
		o2.noRetry = true
		o2.softTimeout = try == 0
		if try == 0 {
			o2.Timeout = full / 4
		} else {
			o2.Timeout = full
		}
		o2.OnTrace = func(raw json.RawMessage) { buf = append(buf, append(json.RawMessage{}, raw...)) }
		res = r.runTLC(o2)
		if res.TimedOut {
			fmt.Printf("NOTE: TLC generator %s/%s did not end within %v, started again\n", o.Module, o.Cfg, o2.Timeout)
			continue
		}
		for _, raw := range buf {
			o.OnTrace(raw)
		}
		return res
	}
	return res
}

func (r *Run) runTLC(o TLCOpts) *TLCResult {
	specDir := filepath.Join(VerifDir, "spec")
	dir := r.Dir(fmt.Sprintf("tlc.%s.%d", o.Module, time.Now().UnixNano()))
	ents, err := os.ReadDir(specDir)
	if err != nil {
		Fail("spec dir: %v", err)
	}
	for _, e := range ents {
		if strings.HasSuffix(e.Name(), ".tla") {
			b, err := os.ReadFile(filepath.Join(specDir, e.Name()))
			if err != nil {
				Fail("read spec: %v", err)
			}
			_ = os.WriteFile(filepath.Join(dir, e.Name()), b, 0644)
		}
	}
	cfg := o.Module + ".cfg"
	if o.CfgText != "" {
		_ = os.WriteFile(filepath.Join(dir, cfg), []byte(o.CfgText), 0644)
	} else {
		b, err := os.ReadFile(filepath.Join(specDir, o.Cfg))
		if err != nil {
			Fail("read cfg: %v", err)
		}
		_ = os.WriteFile(filepath.Join(dir, cfg), b, 0644)
	}
	for name, src := range o.Files {
		b, err := os.ReadFile(src)
		if err != nil {
			Fail("read %s: %v", src, err)
		}
		_ = os.WriteFile(filepath.Join(dir, name), b, 0644)
	}
	for name, txt := range o.Texts {
		_ = os.WriteFile(filepath.Join(dir, name), []byte(txt), 0644)
	}
	workers := o.Workers
	if workers == 0 {
		workers = 8
	}
	jopts := "-Xss512m"
	if o.DFS {
		jopts += " -Dtlc2.tool.queue.IStateQueue=StateDeque"
	}
	args := []string{"-XX:+UseParallelGC", "-Xss512m"}
	if o.DFS {
		args = append(args, "-Dtlc2.tool.queue.IStateQueue=StateDeque")
	}
	_ = jopts
	args = append(args, "-Djava.io.tmpdir="+dir, "-cp", "/opt/veriftools/tla/tla2tools.jar:/opt/veriftools/tla/CommunityModules-deps.jar", "tlc2.TLC",
		"-metadir", filepath.Join(dir, "meta"), "-workers", strconv.Itoa(workers), "-config", cfg, "-noGenerateSpecTE")
	if o.Simulate != "" {
		args = append(args, "-simulate", o.Simulate)
		if o.Depth > 0 {
			args = append(args, "-depth", strconv.Itoa(o.Depth))
		}
		args = append(args, "-seed", strconv.FormatInt(o.Seed, 10))
	}
	if o.Coverage {
		args = append(args, "-coverage", "1")
	}
	if o.Dump != "" {
		args = append(args, "-dump", "dot,actionlabels", o.Dump)
	}
	args = append(args, o.Module+".tla")
	to := o.Timeout
	if to == 0 {
		to = 10 * time.Minute
	}
	cmd := exec.Command("java", args...)
	cmd.Dir = dir
	cmd.Env = append(os.Environ(), o.Env...)
	stdout, _ := cmd.StdoutPipe()
	cmd.Stderr = cmd.Stdout
	start := time.Now()
	if err := cmd.Start(); err != nil {
		Fail("start tlc: %v", err)
	}
	timer := time.AfterFunc(to, func() { _ = cmd.Process.Kill() })
	res := &TLCResult{CoverageOf: map[string]int{}}
	var out bytes.Buffer
	rd := bufio.NewReaderSize(stdout, 1<<20)
	for {
		line, err := rd.ReadString('\n')
		if len(line) > 0 {
			if strings.HasPrefix(line, `<<"TRACE", `) {
				res.Traces++
				if o.OnTrace != nil {
					s := strings.TrimSpace(line)
					s = strings.TrimSuffix(strings.TrimPrefix(s, `<<"TRACE", `), ">>")
					var inner string
					if e := json.Unmarshal([]byte(s), &inner); e != nil {
						Fail("cannot decode TRACE line: %v: %.200s", e, s)
					}
					o.OnTrace(json.RawMessage(inner))
				}
			} else if strings.HasPrefix(line, `<<"OBS"`) {
				if o.OnObs != nil {
					o.OnObs(strings.TrimSpace(line))
				}
			} else if out.Len() < 4<<20 {
				out.WriteString(line)
			}
		}
		if err != nil {
			if err != io.EOF {
				Fail("tlc read: %v", err)
			}
			break
		}
	}
	werr := cmd.Wait()
	killed := !timer.Stop()
	res.Wall = time.Since(start).Seconds()
	res.Output = out.String()
	if killed {
		if o.softTimeout {
			res.TimedOut = true
			return res
		}
		Fail("TLC timed out after %v on %s/%s", to, o.Module, cfg)
	}
	if m := reStates.FindAllStringSubmatch(res.Output, -1); m != nil {
		last := m[len(m)-1]
		res.Generated, _ = strconv.Atoi(last[1])
		res.Distinct, _ = strconv.Atoi(last[2])
	} else if m := reSimStat.FindStringSubmatch(res.Output); m != nil {
		res.Generated, _ = strconv.Atoi(m[1])
		res.Distinct = res.Generated
	}
	if m := reDepth.FindStringSubmatch(res.Output); m != nil {
		res.Depth, _ = strconv.Atoi(m[1])
	}
	res.OK = strings.Contains(res.Output, "No error has been found") || (o.Simulate != "" && werr == nil && !strings.Contains(res.Output, "Error:"))
	if m := reInv.FindStringSubmatch(res.Output); m != nil {
		res.Violated = m[1]
	} else if strings.Contains(res.Output, "is violated") || strings.Contains(res.Output, "was violated") {
		res.Violated = "property"
		if m := regexp.MustCompile(`(?:Action property|Invariant|property|Postcondition|postcondition) (\S+) (?:is|was) violated`).FindStringSubmatch(res.Output); m != nil {
			res.Violated = m[1]
		}
	} else if strings.Contains(res.Output, "Deadlock reached") {
		res.Violated = "Deadlock"
	}
	if i := strings.Index(res.Output, "Error:"); i >= 0 {
		e := res.Output[i:]
		if len(e) > 3000 {
			e = e[:3000]
		}
		res.ErrorText = e
	}
	if o.Coverage {
		for _, l := range strings.Split(res.Output, "\n") {
			if m := reCoverage.FindStringSubmatch(l); m != nil {
				n, _ := strconv.Atoi(m[4])
				res.CoverageOf[m[1]] += n
			}
		}
	}
	if !res.OK && res.Violated == "" {
		// neither success nor a property violation: TLC itself failed (parse error, evaluation error, OOM)
		if !o.KeepOut {
			tail := res.Output
			if len(tail) > 4000 {
				tail = tail[len(tail)-4000:]
			}
			Fail("TLC failed on %s/%s (exit %v):\n%s", o.Module, cfg, werr, tail)
		}
	}
	if !o.KeepOut {
		_ = os.RemoveAll(dir)
	}
	return res
}

// MustHold runs an exhaustive/simulated model-checking configuration that has to pass on the model.
// A failing model is an infrastructure problem (the specification is wrong), never a verdict about csvq.
func (r *Run) MustHold(o TLCOpts) *TLCResult {
	res := r.RunTLC(o)
	if res.Violated != "" || !res.OK {
		Fail("model check %s/%s does not hold on the specification: %s\n%s", o.Module, o.Cfg, res.Violated, res.ErrorText)
	}
	return res
}
