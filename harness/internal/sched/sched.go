// Package sched is the gate scheduler: every verifPoint in lib/file (and load.done in
// lib/query) is a yield point; each model process is a goroutine with its own csvq
// Transaction working on a shared real directory.  Exactly one process runs between
// two gates, so the global order of file-system steps is the order of scheduler
// decisions.
package sched

import (
	"bytes"
	"context"
	"fmt"
	"os"
	"path/filepath"
	"runtime"
	"sort"
	"strconv"
	"strings"
	"sync"
	"time"

	"github.com/mithrandie/csvq/lib/file"
	"github.com/mithrandie/csvq/lib/query"

	"verifharness/internal/sut"
)

type Op struct {
	Op string `json:"op"`
	F  string `json:"f"`
}

type DirF struct {
	Lock   bool `json:"lock"`
	NRLock int  `json:"nrlock"`
	Temp   bool `json:"temp"`
	Exists bool `json:"exists"`
	Ver    int  `json:"ver"`
}

// Event: process P arrived at point Pt (about to execute it); Dir is the directory after
// the step that brought it there.
type Event struct {
	P      string          `json:"p"`
	A      string          `json:"a"` // "step" | "timeout"
	Pt     string          `json:"pt"`
	F      string          `json:"f"`
	Cf     string          `json:"cf"`
	Dir    map[string]DirF `json:"dir"`
	Out    string          `json:"out"`
	Op     string          `json:"op"` // operation p is executing ("read","update","create","commit","rollback","end")
	FailF  string          `json:"ff"` // exited: table of the operation that failed ("" = none)
	FailOp string          `json:"fo"` // operation that failed ("" = none)
}

var gated = map[string]bool{
	"cf.close_fd": true, "cf.remove": true, "wait.retry": true,
	"rlock.stat_lock": true, "rlock.create_lock": true, "rlock.create_rlock": true,
	"lock.check": true, "lock.create_lock": true, "lock.recheck_rlock": true, "temp.create": true,
	"read.stat": true, "read.open": true, "create.stat": true, "create.create_file": true,
	"update.stat": true, "update.open": true,
	"close.data_fd": true, "close.remove_created": true, "close.done": true,
	"commit.data_fd": true, "commit.temp_fd": true, "commit.remove_orig": true, "commit.rename": true,
	"commit.swapped": true, "commit.done": true,
	"cwe.data_fd": true, "cwe.remove_created": true, "cwe.done": true,
	"load.done": true, "stmt.begin": true,
}

type ctlCtx struct {
	mu   sync.Mutex
	done chan struct{}
	err  error
}

func newCtl() *ctlCtx                               { return &ctlCtx{done: make(chan struct{})} }
func (c *ctlCtx) Deadline() (time.Time, bool)       { return time.Now().Add(24 * time.Hour), true }
func (c *ctlCtx) Done() <-chan struct{}             { return c.done }
func (c *ctlCtx) Value(key interface{}) interface{} { return nil }
func (c *ctlCtx) Err() error {
	c.mu.Lock()
	defer c.mu.Unlock()
	return c.err
}
func (c *ctlCtx) expire() {
	c.mu.Lock()
	if c.err == nil {
		c.err = context.DeadlineExceeded
		close(c.done)
	}
	c.mu.Unlock()
}

type proc struct {
	name    string
	prog    []Op
	goid    int64
	arrive  chan Event
	release chan struct{}
	ctx     *ctlCtx
	curOp   string
	exited  bool
	parked  bool // at a gate
	last    Event
	outcome string
	errText string
	failOp  string
	failF   string
}

type Sched struct {
	Dir    string
	Files  []string
	procs  map[string]*proc
	byGoid sync.Map
	Trace  []Event
	Names  []string
	// Block: how long to wait for a released process before calling it blocked. Nothing in csvq blocks between two
	// gates (waiting for a lock is a retry loop through the gate wait.retry), so this is a hang detector only: a short
	// value lets the scheduler go on while the process is still running on a loaded machine, and the recorded order
	// of events is then no longer the order of execution (it produced observation violations that did not reproduce).
	Block   time.Duration
	Stalled bool // a released process did not arrive within Block
	mu      sync.Mutex
}

var hookMu sync.Mutex // one scheduler at a time owns file.VerifHook

func goid() int64 {
	var buf [64]byte
	n := runtime.Stack(buf[:], false)
	s := strings.TrimPrefix(string(buf[:n]), "goroutine ")
	if i := strings.IndexByte(s, ' '); i > 0 {
		v, _ := strconv.ParseInt(s[:i], 10, 64)
		return v
	}
	return -1
}

func cfType(path string) string {
	switch {
	case strings.HasSuffix(path, file.RLockFileSuffix):
		return "rlock"
	case strings.HasSuffix(path, file.LockFileSuffix):
		return "lock"
	case strings.HasSuffix(path, file.TempFileSuffix):
		return "temp"
	}
	return ""
}

func baseOf(path string) string {
	b := filepath.Base(path)
	if strings.HasPrefix(b, ".") {
		b = b[1:]
		b = strings.TrimSuffix(b, file.LockFileSuffix)
		b = strings.TrimSuffix(b, file.TempFileSuffix)
		if strings.HasSuffix(b, file.RLockFileSuffix) {
			b = strings.TrimSuffix(b, file.RLockFileSuffix)
			if i := strings.LastIndex(b, "."); i >= 0 {
				b = b[:i]
			}
		}
	}
	return strings.TrimSuffix(b, ".csv")
}

// New creates the directory with the given tables (single column n, one row holding the version 0)
// and starts every process up to its first gate.
func New(dir string, files []string, exists map[string]bool, progs map[string][]Op) *Sched {
	hookMu.Lock()
	s := &Sched{Dir: dir, Files: files, procs: map[string]*proc{}, Block: 20 * time.Second}
	for _, f := range files {
		if exists[f] {
			_ = os.WriteFile(filepath.Join(dir, f+".csv"), []byte("n\n0\n"), 0644)
		}
	}
	file.VerifHook = s.hook
	for name := range progs {
		s.Names = append(s.Names, name)
	}
	sort.Strings(s.Names)
	for _, name := range s.Names {
		p := &proc{name: name, prog: progs[name], arrive: make(chan Event, 1), release: make(chan struct{}), ctx: newCtl(), outcome: "run"}
		s.procs[name] = p
		started := make(chan struct{})
		go s.runProc(p, started)
		<-started
		s.awaitT(p, "step", 5*time.Second, false) // until its first gate (or exit); not a model step
	}
	return s
}

func (s *Sched) Close() {
	// let everything run to the end, ungated
	file.VerifHook = nil
	for _, p := range s.procs {
		if !p.exited {
			p.ctx.expire()
			if p.parked {
				p.parked = false
				close(p.release)
			}
		}
	}
	deadline := time.After(5 * time.Second)
	for _, p := range s.procs {
		if !p.exited {
			select {
			case <-p.arrive:
			case <-deadline:
			}
		}
	}
	hookMu.Unlock()
}

func sqlOf(o Op) string {
	switch o.Op {
	case "read":
		return "SELECT n FROM `" + o.F + ".csv`"
	case "update":
		return "UPDATE `" + o.F + ".csv` SET n = n + 1"
	case "insself":
		// the new version is computed by a query over the table itself: the table is taken for update before the query reads it
		return "INSERT INTO `" + o.F + ".csv` SELECT MAX(n) + 1 FROM `" + o.F + ".csv`"
	case "fu":
		return "SELECT n FROM `" + o.F + ".csv` FOR UPDATE"
	case "fu2":
		// a set operation FOR UPDATE: every table of both operands is taken for update
		return "SELECT n FROM `f1.csv` UNION ALL SELECT n FROM `f2.csv` FOR UPDATE"
	case "create":
		return "CREATE TABLE `" + o.F + ".csv` (n)"
	case "commit":
		return "COMMIT"
	case "rollback":
		return "ROLLBACK"
	}
	return ""
}

func classify(r sut.Res) string {
	switch r.Num {
	case query.ErrorFileLockTimeout:
		return "timeout"
	case query.ErrorFileNotExist:
		return "notexist"
	case query.ErrorFileAlreadyExist:
		return "exists"
	}
	if r.Fatal {
		return "fatal"
	}
	return "io"
}

func (s *Sched) runProc(p *proc, started chan struct{}) {
	p.goid = goid()
	s.byGoid.Store(p.goid, p)
	close(started)
	defer func() {
		s.byGoid.Delete(p.goid)
		p.arrive <- Event{P: p.name, Pt: "exited", F: "-", Out: p.outcome, Op: "end"}
	}()
	pr, err := sut.NewProcCtx(p.ctx, s.Dir, nil)
	if err != nil {
		p.outcome = "io"
		p.errText = err.Error()
		return
	}
	pr.Tx.RetryDelay = time.Millisecond
	_ = pr.Tx.SetFlag("quiet", true)
	func() {
		defer func() {
			p.curOp = "end"
			pr.End()
		}()
		for _, o := range p.prog {
			p.curOp = o.Op
			if o.Op == "fu" || o.Op == "fu2" || o.Op == "insself" {
				p.curOp = "update" // SELECT .. FOR UPDATE takes its tables like a data-changing statement
			}
			r := pr.Exec(sqlOf(o))
			if r.Err != "" {
				p.outcome = classify(r)
				p.errText = r.Err
				p.failOp = o.Op
				p.failF = o.F
				return
			}
		}
	}()
	// the point "done" is reached when everything is released
	s.gate(p, "done", "")
	if p.outcome == "run" {
		p.outcome = "ok"
	}
}

func (s *Sched) hook(point string, path string) {
	if !gated[point] {
		return
	}
	v, ok := s.byGoid.Load(goid())
	if !ok {
		return
	}
	s.gate(v.(*proc), point, path)
}

func (s *Sched) gate(p *proc, point string, path string) {
	f := "-"
	if path != "" {
		f = baseOf(path)
	}
	p.arrive <- Event{P: p.name, Pt: point, F: f, Cf: cfType(path), Op: p.curOp}
	<-p.release
}

func (s *Sched) dir() map[string]DirF {
	m := map[string]DirF{}
	ents, _ := os.ReadDir(s.Dir)
	for _, f := range s.Files {
		d := DirF{Ver: -1}
		for _, e := range ents {
			n := e.Name()
			switch {
			case n == f+".csv":
				d.Exists = true
				if b, err := os.ReadFile(filepath.Join(s.Dir, n)); err == nil {
					lines := bytes.Split(bytes.TrimSpace(b), []byte("\n"))
					if string(b) == "n\n" {
						d.Ver = 0 // a committed created table: header only
					} else if len(lines) >= 2 {
						if v, err := strconv.Atoi(strings.Trim(string(lines[len(lines)-1]), "\"\r ")); err == nil {
							d.Ver = v
						} else {
							d.Ver = -2
						}
					} else {
						d.Ver = -3 // header only / empty / truncated
					}
				}
			case n == "."+f+".csv.lock":
				d.Lock = true
			case n == "."+f+".csv.temp":
				d.Temp = true
			case strings.HasPrefix(n, "."+f+".csv.") && strings.HasSuffix(n, ".rlock"):
				d.NRLock++
			}
		}
		m[f] = d
	}
	return m
}

// await waits until p is at its next gate, has exited, or is considered blocked.
func (s *Sched) await(p *proc, a string) (Event, bool) {
	return s.awaitT(p, a, s.Block, true)
}

func (s *Sched) awaitT(p *proc, a string, d time.Duration, record bool) (Event, bool) {
	var t <-chan time.Time
	if d > 0 {
		t = time.After(d)
	} else {
		c := make(chan time.Time)
		close(c)
		t = c
	}
	var ev Event
	select {
	case ev = <-p.arrive:
	default:
		select {
		case ev = <-p.arrive:
		case <-t:
			if d > 0 {
				s.Stalled = true
			}
			return Event{P: p.name, Pt: "blocked"}, false
		}
	}
	ev.A = a
	ev.Dir = s.dir()
	ev.Out = p.outcome
	ev.FailF = p.failF
	ev.FailOp = p.failOp
	if ev.Pt == "exited" {
		p.exited = true
	} else {
		p.parked = true
	}
	p.last = ev
	if record {
		s.Trace = append(s.Trace, ev)
	}
	return ev, true
}

// Poll collects the arrival of a process that was blocked earlier (it ran concurrently).
func (s *Sched) Poll(name string) (Event, bool) {
	p := s.procs[name]
	if p.exited || p.parked {
		return p.last, true
	}
	return s.awaitT(p, "step", 0, true)
}

// Step releases p for one step. ok=false: p did not arrive at a gate in time (blocked in a flock wait).
func (s *Sched) Step(name string) (Event, bool) {
	p := s.procs[name]
	if p == nil || p.exited {
		return Event{P: name, Pt: "exited"}, false
	}
	if !p.parked {
		return s.Poll(name)
	}
	p.parked = false
	p.release <- struct{}{}
	return s.await(p, "step")
}

// Timeout lets the wait-timeout context of p expire and releases it (p must be parked at wait.retry).
func (s *Sched) Timeout(name string) (Event, bool) {
	p := s.procs[name]
	if p == nil || p.exited || !p.parked {
		return Event{P: name, Pt: "exited"}, false
	}
	p.ctx.expire()
	p.parked = false
	p.release <- struct{}{}
	ev, ok := s.await(p, "timeout")
	return ev, ok
}

func (s *Sched) Exited(name string) bool { return s.procs[name].exited }
func (s *Sched) Parked(name string) bool { return s.procs[name].parked }
func (s *Sched) At(name string) Event    { return s.procs[name].last }
func (s *Sched) ErrText(name string) string {
	return s.procs[name].errText
}
func (s *Sched) AllExited() bool {
	for _, p := range s.procs {
		if !p.exited {
			return false
		}
	}
	return true
}

func (e Event) String() string {
	return fmt.Sprintf("%s %s %s f=%s cf=%s out=%s dir=%v", e.P, e.A, e.Pt, e.F, e.Cf, e.Out, e.Dir)
}
