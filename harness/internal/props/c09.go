package props

import (
	"encoding/json"
	"fmt"
	"os"
	"path/filepath"
	"regexp"
	"sort"
	"strings"
	"time"

	"verifharness/internal/core"
	"verifharness/internal/sched"
)

// ---------------------------------------------------------------------------
// C09 - concurrent csvq processes never write a table together or lose an update
//
//  1. TLC checks FileProtocol exhaustively (small constants).
//  2. TLC-generated behaviours (-simulate on FileProtocolGen) are replayed through the gate
//     scheduler on the real handler code; pc of the stepped process and the directory
//     are compared after every step (strict layer; a divergence is "model drift").
//  3. Systematic preemption schedules and seeded random schedules are executed on the
//     real code.
//  4. Every executed trace is validated by TLC: FileProtocolTrace (strict) and
//     FileProtocolObs (the property itself; this one gives the verdict).
// ---------------------------------------------------------------------------

func init() {
	Registry["C09"] = &Check{Level: "model_checking", Run: runC09, Replay: replayC09}
}

type fpInit struct {
	A      string                `json:"a"`
	Progs  map[string][]sched.Op `json:"progs"`
	Exists map[string]bool       `json:"exists"`
}

type fpTrace struct {
	Init     fpInit
	Events   []sched.Event
	Origin   string // "tlc" | "preempt" | "random"
	Schedule []string
	Drift    string // first divergence from the model-predicted step (tlc origin)
	ObsOnly  bool   // statement forms FileProtocol.tla has no action list for: judged by the observation specification only
}

func filesOf(in fpInit) []string {
	m := map[string]bool{}
	for f := range in.Exists {
		m[f] = true
	}
	for _, pg := range in.Progs {
		for _, o := range pg {
			if o.F != "-" && o.F != "" {
				m[o.F] = true
			}
		}
	}
	var l []string
	for f := range m {
		l = append(l, f)
	}
	sort.Strings(l)
	return l
}

// finish drives every process to its end with a fair default policy.
func finish(s *sched.Sched, tr *fpTrace) {
	retry := map[string]int{}
	for guard := 0; guard < 5000 && !s.AllExited(); guard++ {
		progressed := false
		for _, p := range s.Names {
			if s.Exited(p) {
				continue
			}
			if !s.Parked(p) {
				if _, ok := s.Poll(p); !ok {
					continue
				}
				progressed = true
				continue
			}
			at := s.At(p)
			if at.Pt == "wait.retry" {
				retry[p]++
				// somebody else able to move? let it (that is what waiting means)
				other := false
				for _, q := range s.Names {
					if q != p && !s.Exited(q) && !(s.Parked(q) && s.At(q).Pt == "wait.retry") {
						other = true
					}
				}
				if other && retry[p]%3 != 0 {
					continue
				}
				if retry[p] > 6 || !other {
					tr.Schedule = append(tr.Schedule, "T:"+p)
					s.Timeout(p)
					progressed = true
					continue
				}
			}
			tr.Schedule = append(tr.Schedule, p)
			if _, ok := s.Step(p); ok {
				progressed = true
			}
		}
		if !progressed {
			time.Sleep(2 * time.Millisecond)
		}
	}
}

// runSchedule executes a schedule (process names, "T:<p>" = timeout) on fresh processes and finishes fairly.
func runSchedule(r *core.Run, in fpInit, schedule []string, origin string) *fpTrace {
	dir := r.Dir("fp")
	defer os.RemoveAll(dir)
	tr := &fpTrace{Init: in, Origin: origin, ObsOnly: obsOnly(in)}
	s := sched.New(dir, filesOf(in), in.Exists, in.Progs)
	defer s.Close()
	for _, d := range schedule {
		if s.AllExited() {
			break
		}
		if strings.HasPrefix(d, "T:") {
			p := d[2:]
			if s.Exited(p) || !s.Parked(p) || s.At(p).Pt != "wait.retry" {
				continue
			}
			tr.Schedule = append(tr.Schedule, d)
			s.Timeout(p)
			continue
		}
		if s.Exited(d) {
			continue
		}
		tr.Schedule = append(tr.Schedule, d)
		s.Step(d)
	}
	finish(s, tr)
	tr.Events = s.Trace
	if s.Stalled {
		core.Fail("a process did not reach its next gate within %v (origin %s): %v", s.Block, origin, tr.Schedule)
	}
	if !s.AllExited() {
		core.Fail("scheduler could not finish a schedule (origin %s): %v", origin, tr.Schedule)
	}
	return tr
}

// replayBehaviour replays one TLC behaviour with strict comparison.
func replayBehaviour(r *core.Run, raw json.RawMessage) *fpTrace {
	var steps []json.RawMessage
	if err := json.Unmarshal(raw, &steps); err != nil || len(steps) == 0 {
		core.Fail("bad behaviour from TLC: %v", err)
	}
	var in fpInit
	if err := json.Unmarshal(steps[0], &in); err != nil {
		core.Fail("bad init: %v", err)
	}
	dir := r.Dir("fp")
	defer os.RemoveAll(dir)
	tr := &fpTrace{Init: in, Origin: "tlc"}
	s := sched.New(dir, filesOf(in), in.Exists, in.Progs)
	defer s.Close()
	for i, st := range steps[1:] {
		var exp sched.Event
		if err := json.Unmarshal(st, &exp); err != nil {
			core.Fail("bad step: %v", err)
		}
		var got sched.Event
		var ok bool
		if exp.A == "timeout" {
			tr.Schedule = append(tr.Schedule, "T:"+exp.P)
			got, ok = s.Timeout(exp.P)
		} else {
			tr.Schedule = append(tr.Schedule, exp.P)
			got, ok = s.Step(exp.P)
		}
		if !ok {
			tr.Drift = fmt.Sprintf("step %d: %s did not arrive at %s (blocked or gone; at %s)", i+1, exp.P, exp.Pt, got.Pt)
			break
		}
		if got.Pt == exp.Pt && got.F != exp.F && (exp.Pt == "commit.data_fd" || exp.Pt == "close.data_fd") {
			break // several tables held: the order of release is a map iteration in the code and a free choice in the model
		}
		if got.Pt != exp.Pt || got.F != exp.F || got.Cf != exp.Cf || got.Out != exp.Out || !sameDir(got.Dir, exp.Dir) {
			tr.Drift = fmt.Sprintf("step %d: expected %s, observed %s", i+1, exp.String(), got.String())
			break
		}
	}
	finish(s, tr)
	tr.Events = s.Trace
	if s.Stalled {
		core.Fail("a process did not reach its next gate within %v while replaying a TLC behaviour", s.Block)
	}
	if !s.AllExited() {
		core.Fail("scheduler could not finish a TLC behaviour")
	}
	return tr
}

func sameDir(a, b map[string]sched.DirF) bool {
	for f, x := range b {
		if a[f] != x {
			return false
		}
	}
	return true
}

func ndjson(traces []*fpTrace) string {
	var b strings.Builder
	for _, t := range traces {
		in := t.Init
		in.A = "init"
		// every process and file of the cfg must be present
		b.WriteString(core.JSON(in))
		b.WriteByte('\n')
		for _, e := range t.Events {
			b.WriteString(core.JSON(e))
			b.WriteByte('\n')
		}
		if len(t.Events) > 0 {
			end := map[string]interface{}{"a": "end", "dir": t.Events[len(t.Events)-1].Dir}
			b.WriteString(core.JSON(end))
			b.WriteByte('\n')
		}
	}
	return b.String()
}

// pad makes the init line total over the processes/files of the trace cfgs.
func padInit(in fpInit, procs []string, files []string) fpInit {
	out := fpInit{A: "init", Progs: map[string][]sched.Op{}, Exists: map[string]bool{}}
	for _, p := range procs {
		out.Progs[p] = in.Progs[p]
		if out.Progs[p] == nil {
			out.Progs[p] = []sched.Op{}
		}
	}
	for _, f := range files {
		out.Exists[f] = in.Exists[f]
	}
	return out
}

var reObs = regexp.MustCompile(`^<<"OBS", (\d+), "([^"]*)">>`)

// validateObs runs the observation spec over the traces; returns index->clause of violating traces.
func validateObs(r *core.Run, traces []*fpTrace) map[int]string {
	bad := map[int]string{}
	if len(traces) == 0 {
		return bad
	}
	seen := 0
	res := r.RunTLC(core.TLCOpts{Module: "FileProtocolObs", Cfg: "FileProtocolObs.cfg", Workers: 1,
		Texts: map[string]string{"trace.ndjson": ndjson(traces)}, Timeout: 15 * time.Minute, KeepOut: true,
		OnObs: func(line string) {
			m := reObs.FindStringSubmatch(line)
			if m == nil {
				core.Fail("cannot parse %s", line)
			}
			var n int
			fmt.Sscanf(m[1], "%d", &n)
			seen++
			if m[2] != "" {
				bad[n-1] = m[2]
			}
		}})
	r.Count("obs_tlc_states", res.Distinct)
	if !res.OK || seen != len(traces) {
		core.Fail("FileProtocolObs did not consume all traces (%d of %d): %s\n%s", seen, len(traces), res.Violated, res.ErrorText)
	}
	return bad
}

// validateStrict runs the strict trace spec; returns the number of traces fully accepted and the first rejection.
func validateStrict(r *core.Run, traces []*fpTrace) (accepted int, firstReject string) {
	// one TLC run per batch; on rejection find the trace by the depth reached and continue after it
	rest := traces
	for rounds := 0; len(rest) > 0 && rounds < 4; rounds++ {
		res := r.RunTLC(core.TLCOpts{Module: "FileProtocolTrace", Cfg: "FileProtocolTrace.cfg", Workers: 1,
			Texts: map[string]string{"trace.ndjson": ndjson(rest)}, Timeout: 10 * time.Minute, KeepOut: true})
		r.Count("strict_tlc_states", res.Distinct)
		if res.OK {
			accepted += len(rest)
			break
		}
		consumed := res.Depth - 1
		if res.Violated != "" && res.Violated != "TraceAccepted" {
			// an invariant of the model failed on a state of a real trace
			if firstReject == "" {
				firstReject = "invariant " + res.Violated + " fails on a recorded state"
			}
		}
		pos := 0
		hit := -1
		for k, t := range rest {
			n := 2 + len(t.Events)
			if consumed < pos+n {
				hit = k
				if firstReject == "" {
					idx := consumed - pos - 1
					if idx >= 0 && idx < len(t.Events) {
						firstReject = fmt.Sprintf("origin=%s event %d not explained by the model: %s", t.Origin, idx, t.Events[idx].String())
					} else {
						firstReject = fmt.Sprintf("origin=%s line %d rejected", t.Origin, consumed-pos)
					}
				}
				break
			}
			pos += n
		}
		if hit < 0 {
			core.Fail("strict validation failed but no trace located (depth %d):\n%s", res.Depth, res.ErrorText)
		}
		accepted += hit
		rest = rest[hit+1:]
	}
	return
}

var fpProgs = map[string][]sched.Op{
	"R":    {{Op: "read", F: "f1"}},
	"UC":   {{Op: "update", F: "f1"}, {Op: "commit", F: "-"}},
	"UR":   {{Op: "update", F: "f1"}, {Op: "rollback", F: "-"}},
	"UE":   {{Op: "update", F: "f1"}},
	"RUC":  {{Op: "read", F: "f1"}, {Op: "update", F: "f1"}, {Op: "commit", F: "-"}},
	"UCUC": {{Op: "update", F: "f1"}, {Op: "commit", F: "-"}, {Op: "update", F: "f1"}, {Op: "commit", F: "-"}},
	"CC":   {{Op: "create", F: "f2"}, {Op: "commit", F: "-"}},
	"CR":   {{Op: "create", F: "f2"}, {Op: "rollback", F: "-"}},
	"R2":   {{Op: "read", F: "f2"}},
	"UC2":  {{Op: "update", F: "f2"}, {Op: "commit", F: "-"}},
	"U12C": {{Op: "update", F: "f1"}, {Op: "update", F: "f2"}, {Op: "commit", F: "-"}},
	"U21C": {{Op: "update", F: "f2"}, {Op: "update", F: "f1"}, {Op: "commit", F: "-"}},
	// SELECT .. FOR UPDATE, of one table and of a set operation over two
	"FC":  {{Op: "fu", F: "f1"}, {Op: "commit", F: "-"}},
	"FUC": {{Op: "fu", F: "f1"}, {Op: "update", F: "f1"}, {Op: "commit", F: "-"}},
	"F2C": {{Op: "fu2", F: "f1"}, {Op: "commit", F: "-"}},
	"F2U": {{Op: "fu2", F: "f1"}, {Op: "update", F: "f2"}, {Op: "commit", F: "-"}},
	// INSERT INTO f1 SELECT MAX(n) + 1 FROM f1: read-modify-write in one statement
	"IC":  {{Op: "insself", F: "f1"}, {Op: "commit", F: "-"}},
	"ICI": {{Op: "insself", F: "f1"}, {Op: "commit", F: "-"}, {Op: "insself", F: "f1"}, {Op: "commit", F: "-"}},
}

func obsOnly(in fpInit) bool {
	for _, pg := range in.Progs {
		for _, o := range pg {
			if o.Op == "fu" || o.Op == "fu2" || o.Op == "insself" {
				return true
			}
		}
	}
	return false
}

var fpProcs = []string{"p1", "p2", "p3"}
var fpFiles = []string{"f1", "f2"}

func fpPad(ts []*fpTrace) {
	for _, t := range ts {
		t.Init = padInit(t.Init, fpProcs, fpFiles)
		for i := range t.Events {
			for _, f := range fpFiles {
				if _, ok := t.Events[i].Dir[f]; !ok {
					t.Events[i].Dir[f] = sched.DirF{Ver: -1}
				}
			}
		}
	}
}

func fpPairInit(pr [2]string) fpInit {
	return fpInit{Progs: map[string][]sched.Op{"p1": fpProgs[pr[0]], "p2": fpProgs[pr[1]]}, Exists: map[string]bool{"f1": true, "f2": !strings.HasPrefix(pr[0], "C")}}
}

func rep(l []string, p string, n int) []string {
	for k := 0; k < n; k++ {
		l = append(l, p)
	}
	return l
}

// fpPreempt: for every pair of programs, p1 runs i steps (every i), then p2 as far as it gets, then both finish.
func fpPreempt(r *core.Run, pairs [][2]string) []*fpTrace {
	var out []*fpTrace
	for _, pr := range pairs {
		in := fpPairInit(pr)
		n1 := soloLen(r, in, "p1")
		for i := 0; i <= n1; i++ {
			out = append(out, runSchedule(r, in, rep(rep(nil, "p1", i), "p2", 80), "preempt"))
			r.Count("preemption_schedules", 1)
		}
	}
	return out
}

// fpPreempt2: p1 runs i steps, p2 runs j steps, p1 runs as far as it gets, then both finish.
func fpPreempt2(r *core.Run, pairs [][2]string, stride int) []*fpTrace {
	var out []*fpTrace
	for _, pr := range pairs {
		in := fpPairInit(pr)
		n1 := soloLen(r, in, "p1")
		n2 := soloLen(r, in, "p2")
		for i := 0; i <= n1; i++ {
			for j := 1; j <= n2; j += stride {
				out = append(out, runSchedule(r, in, rep(rep(rep(nil, "p1", i), "p2", j), "p1", 80), "preempt2"))
				r.Count("preemption_schedules", 1)
			}
		}
	}
	return out
}

func soloLen(r *core.Run, in fpInit, p string) int {
	one := fpInit{Progs: map[string][]sched.Op{p: in.Progs[p]}, Exists: in.Exists}
	t := runSchedule(r, one, nil, "solo")
	return len(t.Events)
}

func runC09(r *core.Run) {
	r.Assume = []string{
		"TLC explores the specification exhaustively only within the stated constants",
		"in-process goroutine 'processes' with separate Transactions conflict like OS processes (flock is per open file description; O_EXCL and rename are kernel semantics)",
		"the gate hooks (build tag verif) sit before every file-system step of lib/file; steps inside the go-file dependency's flock retry loop are not gated",
	}
	// ---- 1. model checking ------------------------------------------------
	mc := r.MustHold(core.TLCOpts{Module: "FileProtocolMC", Cfg: "FileProtocolMC_2p1f.cfg", Workers: 8, Timeout: 15 * time.Minute})
	states, trans := mc.Distinct, mc.Generated
	cfgs := []string{"FileProtocolMC_2p1f.cfg"}
	if r.Thorough {
		for _, c := range []string{"FileProtocolMC_3p1f.cfg", "FileProtocolMC_2p2f.cfg", "FileProtocolMC_create.cfg"} {
			m := r.MustHold(core.TLCOpts{Module: "FileProtocolMC", Cfg: c, Workers: 12, Timeout: 40 * time.Minute})
			states += m.Distinct
			trans += m.Generated
			cfgs = append(cfgs, c)
		}
	}
	r.Coverage["states"] = states
	r.Coverage["transitions"] = trans
	r.Coverage["mc_configs"] = cfgs
	r.Coverage["exhaustive"] = false

	procs := []string{"p1", "p2", "p3"}
	files := []string{"f1", "f2"}
	pad := func(ts []*fpTrace) {
		for _, t := range ts {
			t.Init = padInit(t.Init, procs, files)
			for i := range t.Events {
				for _, f := range files {
					if _, ok := t.Events[i].Dir[f]; !ok {
						t.Events[i].Dir[f] = sched.DirF{Ver: -1}
					}
				}
			}
		}
	}
	var all []*fpTrace
	nev := 0
	// judge validates a batch with the observation spec; violations are reproduced and reported.
	judge := func(batch []*fpTrace) bool {
		pad(batch)
		for _, t := range batch {
			nev += len(t.Events)
			r.Distinct("sched:" + core.JSON(t.Init.Progs) + strings.Join(t.Schedule, ","))
		}
		all = append(all, batch...)
		bad := validateObs(r, batch)
		obsSelfTest(r, batch, bad)
		idxs := make([]int, 0, len(bad))
		for i := range bad {
			idxs = append(idxs, i)
		}
		sort.Ints(idxs)
		reported := map[string]bool{}
		for _, i := range idxs {
			t := batch[i]
			if reported[fpSignature(bad[i], t)] {
				continue
			}
			again := runSchedule(r, t.Init, t.Schedule, "reproduce")
			pad([]*fpTrace{again})
			b2 := validateObs(r, []*fpTrace{again})
			if len(b2) == 0 {
				core.Fail("observation violation %s did not reproduce for schedule %v", bad[i], t.Schedule)
			}
			sig := fpSignature(b2[0], again)
			reported[sig] = true
			r.Violation(sig, fmt.Sprintf("%s\nprograms=%s\nschedule=%v", b2[0], core.JSON(t.Init.Progs), t.Schedule),
				map[string]interface{}{"init": t.Init, "schedule": t.Schedule, "clause": b2[0]})
		}
		return len(bad) == 0
	}
	finishEvidence := func(drift int, firstDrift string, acc int, rej string) {
		r.Coverage["traces_validated_against_impl"] = len(all)
		r.Coverage["trace_events"] = nev
		r.Coverage["strict_accepted"] = acc
		r.Coverage["model_drift_replays"] = drift
		if firstDrift != "" {
			r.Coverage["model_drift_first"] = firstDrift
		}
		if rej != "" {
			r.Coverage["strict_first_rejection"] = rej
		}
		if len(all) > 0 {
			t := all[len(all)/2]
			var pts []string
			for _, e := range t.Events {
				pts = append(pts, e.P+":"+e.Pt)
			}
			r.Sample(map[string]interface{}{"origin": t.Origin, "programs": t.Init.Progs, "events": pts})
		}
		if drift > 0 || rej != "" {
			fmt.Printf("NOTE property=C09 model drift: %d replays diverged; first: %s; strict rejection: %s (verdict taken from the observation specification)\n", drift, firstDrift, rej)
		}
	}

	// ---- 2. schedules chosen on the real code: systematic preemption -------
	pairs := [][2]string{{"UC", "UC"}, {"R", "UC"}, {"UC", "R"}, {"RUC", "UC"}, {"UR", "UC"}, {"UCUC", "RUC"}, {"UE", "R"}, {"UC", "UE"},
		{"U12C", "U21C"}, {"CC", "CC"}, {"F2C", "UC2"}, {"FC", "UC"}, {"UC2", "F2U"}, {"FUC", "R"}, {"IC", "UC"}, {"IC", "ICI"}, {"CC", "R2"}, {"CR", "CC"}, {"CC", "UC2"}}
	if !r.Thorough {
		pairs = pairs[:16]
	}
	batch := fpPreempt(r, pairs)
	if !judge(batch) {
		finishEvidence(0, "", 0, "")
		return
	}

	// ---- 3. TLC behaviours replayed on the real code ----------------------
	nsim := 250
	if r.Thorough {
		nsim = 3000
	}
	genCfgs := []string{"FileProtocolGen_2p1f.cfg", "FileProtocolGen_2p2f.cfg", "FileProtocolGen_create.cfg"}
	drift := 0
	firstDrift := ""
	batch = nil
	for gi, gc := range genCfgs {
		var behs []json.RawMessage
		r.RunTLC(core.TLCOpts{Module: "FileProtocolGen", Cfg: gc, Workers: 1, Simulate: fmt.Sprintf("num=%d", nsim), Depth: 400,
			Seed: r.Seed*7 + int64(gi), Timeout: 10 * time.Minute,
			OnTrace: func(raw json.RawMessage) { behs = append(behs, append(json.RawMessage{}, raw...)) }})
		for _, b := range behs {
			if !r.Distinct("beh:" + string(b)) {
				continue
			}
			t := replayBehaviour(r, b)
			r.Count("tlc_behaviours_replayed", 1)
			if t.Drift != "" {
				drift++
				if firstDrift == "" {
					firstDrift = t.Drift
				}
				if d := os.Getenv("VERIF_DUMP"); d != "" {
					writeFile(filepath.Join(d, fmt.Sprintf("c09drift_%d.json", drift)), core.JSON(map[string]interface{}{"drift": t.Drift, "behaviour": b, "events": t.Events}))
				}
			}
			batch = append(batch, t)
			if drift > 40 {
				break // the code no longer follows the model: the remaining replays add nothing
			}
		}
	}
	if !judge(batch) {
		finishEvidence(drift, firstDrift, 0, "")
		return
	}

	// ---- 4. two preemptions (thorough) and seeded random schedules ----------
	batch = nil
	if r.Thorough {
		batch = append(batch, fpPreempt2(r, pairs, 2)...)
	} else {
		batch = append(batch, fpPreempt2(r, [][2]string{{"UC", "R"}, {"UC", "UC"}}, 3)...)
	}
	nrand := 300
	if r.Thorough {
		nrand = 5000
	}
	names := []string{"R", "UC", "UR", "UE", "RUC", "UCUC", "U12C", "U21C", "R2", "UC2", "FC", "FUC", "F2C", "F2U", "IC", "ICI"}
	for i := 0; i < nrand; i++ {
		np := 2 + r.Rand.Intn(2)
		in := fpInit{Progs: map[string][]sched.Op{}, Exists: map[string]bool{"f1": true, "f2": true}}
		var ps []string
		for k := 1; k <= np; k++ {
			p := fmt.Sprintf("p%d", k)
			ps = append(ps, p)
			in.Progs[p] = fpProgs[names[r.Rand.Intn(len(names))]]
		}
		var sc []string
		for k := 0; k < 150; k++ {
			p := ps[r.Rand.Intn(np)]
			burst := 1 + r.Rand.Intn(4)
			for b := 0; b < burst; b++ {
				sc = append(sc, p)
			}
			if r.Rand.Intn(25) == 0 {
				sc = append(sc, "T:"+p)
			}
		}
		batch = append(batch, runSchedule(r, in, sc, "random"))
		r.Count("random_schedules", 1)
	}
	if !judge(batch) {
		finishEvidence(drift, firstDrift, 0, "")
		return
	}

	// ---- 4b. the real binary: a transaction lasts until COMMIT / ROLLBACK / the end of the procedure ---------------
	// nothing in between ends it - not a nested execution (EXECUTE, SOURCE, a prepared statement, a function call):
	// the hook points of the binary show how often COMMIT ran and that the table stays locked in between
	for _, sc := range []struct{ name, sql, extra string }{
		{"execute", "UPDATE `f1.csv` SET n = n + 1;\nEXECUTE 'SELECT 1 AS one';\nUPDATE `f1.csv` SET n = n + 1;\n", ""},
		{"source", "UPDATE `f1.csv` SET n = n + 1;\nSOURCE `repo/inc.sql`;\nUPDATE `f1.csv` SET n = n + 1;\n", "SELECT 2 AS two;\n"},
		{"prepared", "PREPARE ps FROM 'SELECT 3 AS three';\nSELECT n FROM `f1.csv` FOR UPDATE;\nEXECUTE ps;\nUPDATE `f1.csv` SET n = n + 1;\n", ""},
		{"function", "DECLARE noop FUNCTION () AS BEGIN VAR @q := 1; END;\nVAR @z;\nUPDATE `f1.csv` SET n = n + 1;\n@z := noop();\nUPDATE `f1.csv` SET n = n + 1;\n", ""},
	} {
		bs := binScenario{Name: "txb." + sc.name, Tables: map[string]string{"f1.csv": rowsCSV(3, 0)}, SQL: sc.sql}
		if sc.extra != "" {
			bs.Tables["inc.sql"] = sc.extra
		}
		d, res, points := runScenario(r, bs, nil, true)
		_ = os.RemoveAll(d)
		if res.Exit != 0 {
			core.Fail("transaction-boundary scenario %s failed: %s", sc.name, res.Stderr)
		}
		commits, released := 0, false
		held := false
		for _, pt := range points {
			switch {
			case pt.Point == "tx.commit.begin":
				commits++
			case pt.Point == "load.done" && pt.Base == "f1.csv":
				held = true
			case pt.Point == "cf.remove" && pt.Base == "f1.csv" && held && commits == 0:
				released = true // a control file of the held table removed before any COMMIT began
			}
		}
		r.Count("transaction_boundary_scenarios", 1)
		if commits != 1 || released {
			r.Violation("ObsHeldUntilEnd:transaction-ended-early:"+sc.name, fmt.Sprintf("procedure %q: %d COMMITs ran (1 expected: the automatic one at the end), table released early: %v", sc.sql, commits, released),
				map[string]interface{}{"sql": sc.sql})
		}
	}

	// ---- 5. strict layer over everything that ran ---------------------------
	var strict []*fpTrace
	for _, t := range all {
		if !t.ObsOnly {
			strict = append(strict, t)
		}
	}
	acc, rej := validateStrict(r, strict)
	finishEvidence(drift, firstDrift, acc, rej)
}

// fpSignature: clause + the kinds of operations involved (not the schedule itself)
func fpSignature(clause string, t *fpTrace) string {
	kinds := map[string]bool{}
	for _, pg := range t.Init.Progs {
		for _, o := range pg {
			kinds[o.Op] = true
		}
	}
	var ks []string
	for k := range kinds {
		ks = append(ks, k)
	}
	sort.Strings(ks)
	return clause + "|ops=" + strings.Join(ks, "+")
}

func replayC09(r *core.Run, path string) {
	b, err := os.ReadFile(path)
	if err != nil {
		core.Fail("read replay: %v", err)
	}
	var rp struct {
		Case struct {
			Init     fpInit   `json:"init"`
			Schedule []string `json:"schedule"`
		} `json:"case"`
	}
	if err := json.Unmarshal(b, &rp); err != nil {
		core.Fail("parse replay: %v", err)
	}
	t := runSchedule(r, rp.Case.Init, rp.Case.Schedule, "replay")
	t.Init = padInit(t.Init, []string{"p1", "p2", "p3"}, []string{"f1", "f2"})
	for k := range t.Events {
		for _, f := range []string{"f1", "f2"} {
			if _, ok := t.Events[k].Dir[f]; !ok {
				t.Events[k].Dir[f] = sched.DirF{Ver: -1}
			}
		}
		fmt.Println(t.Events[k].String())
	}
	bad := validateObs(r, []*fpTrace{t})
	r.Coverage["states"] = 1
	r.Coverage["transitions"] = 1
	r.Coverage["traces_validated_against_impl"] = 1
	if len(bad) > 0 {
		r.Violation(fpSignature(bad[0], t), bad[0], map[string]interface{}{"init": t.Init, "schedule": t.Schedule, "clause": bad[0]})
	}
	_ = filepath.Join
}

var obsSelfTested bool

// obsSelfTest demonstrates the binding once per run: in an accepted execution the version seen on disk after an
// install is changed (as if an update had been lost); the observation specification must flag exactly that.
func obsSelfTest(r *core.Run, batch []*fpTrace, bad map[int]string) {
	if obsSelfTested {
		return
	}
	for i, t := range batch {
		if bad[i] != "" {
			continue
		}
		for k, e := range t.Events {
			if e.Pt != "commit.swapped" || e.Dir == nil || e.Dir[e.F].Ver < 1 {
				continue
			}
			c := *t
			c.Events = make([]sched.Event, len(t.Events))
			for j, x := range t.Events {
				c.Events[j] = x
				if j >= k {
					d := map[string]sched.DirF{}
					for f, v := range x.Dir {
						if f == e.F && v.Ver >= 0 {
							v.Ver += 5
						}
						d[f] = v
					}
					c.Events[j].Dir = d
				}
			}
			if got := validateObs(r, []*fpTrace{&c}); got[0] == "" {
				core.Fail("FileProtocolObs accepts an execution in which the installed version was changed: the binding is vacuous")
			} else {
				r.Count("binding_selftest_corrupted_execution_flagged", 1)
				r.Coverage["binding_selftest_clause"] = got[0]
			}
			obsSelfTested = true
			return
		}
	}
}
