package props

import (
	"fmt"
	"math"
	"sort"
	"strconv"
	"strings"

	"verifharness/internal/core"
)

// C17 - analytic functions equal their per-partition, per-frame definition (Relational.tla section 6).
// The order csvq used inside each partition is read from ROW_NUMBER() over the same window; TLC checks that
// it is a valid order of exactly the partition and that every returned value equals the definition under it.

func init() {
	Registry["C17"] = &Check{Level: "model_checking", Run: runC17}
}

func normKeyGo(c rcell) string {
	switch {
	case c.N:
		return "null"
	case c.HasI:
		return "i:" + strconv.FormatInt(c.I, 10)
	case c.HasF:
		return "f:" + c.Fk + strconv.FormatInt(c.F2, 10)
	case c.HasD:
		return "d:" + strconv.FormatInt(c.D, 10)
	case c.HasB:
		return "b:" + strconv.FormatBool(c.B)
	}
	return "s:" + c.u
}

type bound struct {
	K string `json:"k"`
	N int    `json:"n"`
}

func (b bound) sql() string {
	switch b.K {
	case "ub":
		return "UNBOUNDED"
	case "cur":
		return "CURRENT ROW"
	case "pre":
		return fmt.Sprintf("%d PRECEDING", b.N)
	}
	return fmt.Sprintf("%d FOLLOWING", b.N)
}

func runC17(r *core.Run) {
	r.Assume = []string{
		"the order inside a partition is the one csvq's ROW_NUMBER() shows for the same window (validated by TLC to be a correct order of exactly that partition); order-sensitive functions are run with a total order (a unique last key), ranking functions with ties",
		"default frames: running frame for aggregates and NTH_VALUE with ORDER BY, first/last value of the partition for FIRST_VALUE/LAST_VALUE (manual: value in a group); IGNORE NULLS with LAG/LEAD only at offset 1; LISTAGG/JSON_AGG/user aggregates OVER are not generated",
	}
	mc := r.MustHold(core.TLCOpts{Module: "RelMC", Cfg: "RelMC_analytic.cfg", Workers: 8})
	r.Coverage["states"] = mc.Distinct
	r.Coverage["transitions"] = mc.Generated
	ncase := 260
	if r.Thorough {
		ncase = 2500
	}
	rng := r.Rand
	var evs []relEvent
	errRep := map[string]bool{}
	fns := []string{"row_number", "rank", "dense_rank", "cume_dist", "percent_rank", "ntile", "lag", "lead", "first_value", "last_value", "nth_value", "count", "sum", "min", "max", "listagg", "useragg"}
	for c := 0; c < ncase; c++ {
		n := []int{1, 2, 3, 5, 9, 20, 60, 170, 330}[rng.Intn(9)]
		// p: partition key (few values, NULLs, spellings), o: order key (ties, NULLs), v: value column
		ogen := genInt(4)
		if rng.Intn(3) == 0 {
			ogen = genNum(2) // the same number as 2, 2.0, " 2 ", 02: ties of the ORDER BY, hence peers
		}
		t := genTable(r, "t", []string{"id", "p", "o", "v"}, []colGen{genID, genKeyInt, ogen, genHalf}, n)
		if rng.Intn(6) == 0 {
			for i := range t.Rows { // one partition only
				t.Rows[i][1] = classify("7", false)
			}
		}
		fn := fns[rng.Intn(len(fns))]
		ranking := fn == "rank" || fn == "dense_rank" || fn == "cume_dist" || fn == "percent_rank"
		desc := rng.Intn(3) == 0
		okey := "o"
		if desc {
			okey = "o DESC"
		}
		keys := []sortKey{{I: 3, Desc: desc, Nf: !desc}}
		if !ranking {
			okey += ", id"
			keys = append(keys, sortKey{I: 1, Desc: false, Nf: true})
		}
		partition := "PARTITION BY p "
		pcols := []int{2}
		if rng.Intn(5) == 0 {
			partition = ""
			pcols = []int{}
		}
		win := partition + "ORDER BY " + okey
		arg := 0
		lo, hi := bound{K: "ub"}, bound{K: "ub"}
		call := ""
		frame := ""
		ign := false
		mkFrame := func(def [2]bound) {
			if rng.Intn(4) == 0 {
				lo, hi = def[0], def[1]
				return
			}
			bs := []bound{{K: "ub"}, {K: "pre", N: 1 + rng.Intn(2)}, {K: "cur"}, {K: "fol", N: 1 + rng.Intn(2)}}
			for {
				lo, hi = bs[rng.Intn(4)], bs[rng.Intn(4)]
				order := map[string]int{"pre": 1, "cur": 2, "fol": 3}
				if lo.K == "ub" || hi.K == "ub" {
					break
				}
				if order[lo.K] < order[hi.K] || (lo.K == hi.K && ((lo.K == "pre" && lo.N >= hi.N) || (lo.K == "fol" && lo.N <= hi.N) || lo.K == "cur")) {
					break
				}
			}
			ls, hs := lo.sql(), hi.sql()
			if lo.K == "ub" {
				ls = "UNBOUNDED PRECEDING"
			}
			if hi.K == "ub" {
				hs = "UNBOUNDED FOLLOWING"
			}
			frame = " ROWS BETWEEN " + ls + " AND " + hs
		}
		switch fn {
		case "row_number", "rank", "dense_rank", "cume_dist", "percent_rank":
			call = strings.ToUpper(fn) + "()"
		case "ntile":
			arg = 1 + rng.Intn(5)
			call = fmt.Sprintf("NTILE(%d)", arg)
		case "lag", "lead":
			arg = 1 + rng.Intn(3)
			call = fmt.Sprintf("%s(v, %d)", strings.ToUpper(fn), arg)
			if rng.Intn(2) == 0 {
				// IGNORE NULLS: "rows whose value is null are skipped"; generated with offset 1 only, where the
				// readings of that sentence agree (the nearest non-null value in that direction)
				ign, arg = true, 1
				call = fmt.Sprintf("%s(v) IGNORE NULLS", strings.ToUpper(fn))
			}
		case "first_value", "last_value":
			call = strings.ToUpper(fn) + "(v)"
			mkFrame([2]bound{{K: "ub"}, {K: "ub"}})
			// IGNORE NULLS only with an explicit frame (the manual does not say which frame applies without one)
			if frame != "" && rng.Intn(2) == 0 {
				ign = true
				call += " IGNORE NULLS"
			}
		case "nth_value":
			arg = 1 + rng.Intn(3)
			call = fmt.Sprintf("NTH_VALUE(v, %d)", arg)
			mkFrame([2]bound{{K: "ub"}, {K: "cur"}}) // without a frame clause: the running frame, as for aggregates
			if frame != "" && rng.Intn(2) == 0 {
				ign = true
				call += " IGNORE NULLS"
			}
		case "listagg":
			call = "LISTAGG(v, 'a')"
		case "useragg":
			// a user-defined aggregate with a second argument that varies from row to row inside one partition (the partition
			// key in the row's own spelling): every row gets the value computed with ITS argument
			call = "tagcount(v, p)"
		default:
			call = strings.ToUpper(fn) + "(v)"
			mkFrame([2]bound{{K: "ub"}, {K: "cur"}})
		}
		sql := fmt.Sprintf("SELECT id, %s OVER (%s%s) AS r, ROW_NUMBER() OVER (%s) AS rn FROM t", call, win, frame, win)
		if fn != "listagg" && c%5 == 4 {
			// the table comes from a sub-query that has an analytic function of its own and lists the columns in another
			// order: the outer function must order and partition by ITS columns
			sql = fmt.Sprintf("SELECT id, %s OVER (%s%s) AS r, ROW_NUMBER() OVER (%s) AS rn FROM (SELECT v, o, p, id, %s() OVER (ORDER BY %s) AS zz FROM t) t",
				call, win, frame, win, []string{"ROW_NUMBER", "RANK"}[rng.Intn(2)], []string{"v", "o DESC", "p, v", "id DESC"}[rng.Intn(4)])
		}
		if fn == "listagg" {
			// two calls that differ in the separator only (and only in its letter case): two columns, each with its own value
			sql = fmt.Sprintf("SELECT id, LISTAGG(v, 'a') OVER (%s) AS r, ROW_NUMBER() OVER (%s) AS rn, LISTAGG(v, 'A') OVER (%s) AS r2 FROM t", win, win, win)
		}
		pre := ""
		if fn == "useragg" {
			win = partition
			pre = "DECLARE tagcount AGGREGATE (list, @tag) AS BEGIN VAR @n := 0, @v; WHILE @v IN list DO @n := @n + 1; END WHILE; RETURN @tag || ':' || @n; END; "
			sql = fmt.Sprintf("SELECT id, tagcount(v, p) OVER (%s) AS r, ROW_NUMBER() OVER (%sORDER BY %s) AS rn FROM t", partition, partition, okey)
		}
		cpu := []int{1, 4, 8}[rng.Intn(3)]
		x := newRelRun(r, cpu, t)
		res, _, e := x.query(pre + sql + ";")
		// the same query cut by LIMIT / OFFSET (no ORDER BY of the query): the rows of the uncut result at those positions,
		// with the values they have there - the functions see their whole partitions, not the rows that are kept
		var cut [][]rcell
		ca, cb, ecut := 0, 0, ""
		if e == "" && c%3 == 0 && n >= 2 {
			ca, cb = 1+rng.Intn(n), rng.Intn(n)
			cut, _, ecut = x.query(fmt.Sprintf("%s LIMIT %d OFFSET %d;", sql, ca, cb)) // (the session has the function already)
		}
		x.close()
		sig := "analytic:" + fn
		if ign {
			sig += ":ignore-nulls"
		}
		if frame != "" {
			sig += ":frame"
		}
		if e != "" {
			if !errRep[sig+e] {
				errRep[sig+e] = true
				r.Violation(sig+":error:"+e, sql+" fails with "+e, map[string]interface{}{"sql": sql})
			}
			continue
		}
		if len(res) != n {
			if !errRep[sig+"rows"] {
				errRep[sig+"rows"] = true
				r.Violation(sig+":row-count", fmt.Sprintf("%s returns %d rows for %d input rows", sql, len(res), n), map[string]interface{}{"sql": sql})
			}
			continue
		}
		if ca > 0 {
			txt := func(rows [][]rcell) []string {
				out := []string{}
				for _, row := range rows {
					var cs []string
					for _, cl := range row {
						if cl.N {
							cs = append(cs, "NULL")
						} else {
							cs = append(cs, cl.T)
						}
					}
					out = append(out, strings.Join(cs, "|"))
				}
				return out
			}
			if ecut != "" {
				r.Violation(sig+":limit:error:"+ecut, sql+" LIMIT .. fails with "+ecut, map[string]interface{}{"sql": sql})
			} else {
				hi2 := cb + ca
				if hi2 > len(res) {
					hi2 = len(res)
				}
				evs = append(evs, relEvent{SQL: fmt.Sprintf("%s LIMIT %d OFFSET %d", sql, ca, cb), Sig: "analytic:limit-without-order", CPU: cpu,
					Ev: map[string]interface{}{"kind": "concat", "parts": [][]string{txt(res[cb:hi2])}, "whole": txt(cut)}})
			}
		}
		// group by partition (harness-side key; TLC re-checks that each group is exactly a partition)
		type ent struct {
			idx  int // 1-based row index in t
			rn   int
			val  rcell
			val2 rcell
		}
		groups := map[string][]ent{}
		var gorder []string
		bad := false
		for _, row := range res {
			id, _ := strconv.Atoi(row[0].T)
			rn, err := strconv.Atoi(row[2].T)
			if id < 1 || id > n || err != nil {
				bad = true
				break
			}
			k := "all"
			if len(pcols) > 0 {
				k = normKeyGo(t.Rows[id-1][1])
			}
			if _, ok := groups[k]; !ok {
				gorder = append(gorder, k)
			}
			en := ent{idx: id, rn: rn, val: row[1]}
			if len(row) > 3 {
				en.val2 = row[3]
			}
			groups[k] = append(groups[k], en)
		}
		if bad {
			r.Violation(sig+":shape", sql+": id or ROW_NUMBER column is not what was selected", map[string]interface{}{"sql": sql})
			continue
		}
		var parts []map[string]interface{}
		for _, k := range gorder {
			g := groups[k]
			sort.Slice(g, func(a, b int) bool { return g[a].rn < g[b].rn })
			var ord []int
			var vals []map[string]interface{}
			for _, e := range g {
				ord = append(ord, e.idx)
				v := map[string]interface{}{"i": 0, "num": 0, "den": 1, "t": e.val.T, "i2": 0, "t2": e.val2.T}
				if e.val.N {
					v["t"] = "NULL"
				}
				if e.val2.N {
					v["t2"] = "NULL"
				}
				if f, err := strconv.ParseFloat(e.val.T, 64); err == nil && !e.val.N {
					if f == math.Trunc(f) && math.Abs(f) < 1e9 {
						v["i"] = int(f)
					} else {
						v["i"] = -999999
					}
					if f*2 == math.Trunc(f*2) && math.Abs(f) < 1e8 {
						v["i2"] = int(f * 2)
					} else {
						v["i2"] = -999999
					}
					den := len(g)
					if fn == "percent_rank" {
						den = len(g) - 1
					}
					if den > 0 {
						num := math.Round(f * float64(den))
						if math.Abs(f-num/float64(den)) < 1e-9 {
							v["num"], v["den"] = int(num), den
						} else {
							v["num"], v["den"] = -1, den
						}
					}
				}
				vals = append(vals, v)
			}
			parts = append(parts, map[string]interface{}{"ord": ord, "vals": vals})
		}
		rankStrings(t.Rows)
		evs = append(evs, relEvent{SQL: sql, Sig: sig, CPU: cpu, Ev: map[string]interface{}{"kind": "analytic", "rows": cellsJSON(t.Rows), "pcols": pcols, "keys": keys,
			"fn": fn, "arg": arg, "col": 4, "lo": lo, "hi": hi, "ign": ign, "parts": parts}})
		r.Distinct(sql + fmt.Sprint(n))
		if c < 4 {
			r.Sample(map[string]interface{}{"sql": sql, "rows": n, "cpu": cpu, "partitions": len(parts)})
		}
	}
	reported := map[string]bool{}
	for _, i := range validateRel(r, evs) {
		e := evs[i]
		if reported[e.Sig] {
			continue
		}
		reported[e.Sig] = true
		r.Violation(e.Sig, fmt.Sprintf("%s (cpu %d): a returned value differs from the per-partition, per-frame definition", e.SQL, e.CPU), map[string]interface{}{"sql": e.SQL, "event": e.Ev})
	}
	r.Coverage["traces_validated_against_impl"] = len(evs)
	r.Coverage["exhaustive"] = false
}
