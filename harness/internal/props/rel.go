package props

import (
	"encoding/json"
	"fmt"
	"math"
	"os"
	"path/filepath"
	"sort"
	"strconv"
	"strings"
	"time"

	"verifharness/internal/core"
	"verifharness/internal/sut"
)

// ---------------------------------------------------------------------------
// Shared machinery of the Relational checks (C03 C04 C07 C17): cells with the attributes
// Values.tla / Relational.tla work on, table generators, execution of a query on the real
// csvq, and validation of the recorded events by TLC (spec/RelTrace.tla).
// ---------------------------------------------------------------------------

type rcell struct {
	N    bool   `json:"n"`
	T    string `json:"t"`
	HasI bool   `json:"hasI"`
	I    int64  `json:"i"`
	HasF bool   `json:"hasF"`
	Fk   string `json:"fk"`
	F2   int64  `json:"f2"`
	HasD bool   `json:"hasD"`
	D    int64  `json:"d"`
	HasB bool   `json:"hasB"`
	B    bool   `json:"b"`
	IsS  bool   `json:"isS"`
	Ur   int    `json:"ur"`
	Tern string `json:"tern"`
	u    string
	// exact integer / float64 reading of the text, whatever its size (compressNumeric)
	hasBI bool
	bi    int64
	hasBF bool
	bf    float64
}

func trimSp(s string) string { return strings.Trim(s, " \t\n\r\v\f \u0085") }

// classify gives a text cell of a CSV file the attributes of the manual's conversion table.
func classify(text string, null bool) rcell {
	c := rcell{N: null, T: text, Fk: "num", Tern: "U"}
	if null {
		c.T = ""
		return c
	}
	c.IsS = true
	t := trimSp(text)
	c.u = strings.ToUpper(t)
	if i, err := strconv.ParseInt(t, 10, 64); err == nil {
		c.hasBI, c.bi = true, i
		if i > -(1<<29) && i < (1<<29) {
			c.HasI, c.I = true, i
		}
	}
	if f, err := strconv.ParseFloat(t, 64); err == nil {
		if !math.IsNaN(f) && !math.IsInf(f, 0) {
			c.hasBF, c.bf = true, f
		}
		switch {
		case math.IsNaN(f):
			c.HasF, c.Fk = true, "nan"
		case math.IsInf(f, 1):
			c.HasF, c.Fk = true, "pinf"
		case math.IsInf(f, -1):
			c.HasF, c.Fk = true, "ninf"
		case f*2 == math.Trunc(f*2) && math.Abs(f) < (1<<28):
			c.HasF, c.F2 = true, int64(f*2)
		default:
			// outside the half-unit repertoire (only results of computed columns): no numeric attributes claimed
			c.HasF, c.Fk = true, "odd"
		}
	}
	if b, err := strconv.ParseBool(t); err == nil {
		c.HasB, c.B = true, b
		if b {
			c.Tern = "T"
		} else {
			c.Tern = "F"
		}
	}
	// (csvq reads a text as a datetime after trimming it; of its many notations the generators use these two)
	for _, layout := range []string{"2006-01-02 15:04:05", "2006-01-02"} {
		if tm, err := time.Parse(layout, t); err == nil {
			c.HasD, c.D = true, tm.Unix()-1300000000
			break
		}
	}
	return c
}

// compressNumeric: TLC has 32-bit integers and no floats.  When an event holds numbers outside the repertoire
// classify can state exactly (integers beyond 2^29, floats that are not halves), all numeric cells of the event
// are re-expressed order-isomorphically: i = rank of the exact integer among the integers of the event, f2 =
// twice the rank of the float64 reading among all float64 readings (an integer compared with a float is
// compared as float64, so 2^53+1 and 2^53 get the same f2 but different i).  Comparisons, ties and bucket
// equality are preserved; sums are not - only events without arithmetic use it.  Returns whether it applied.
func compressNumeric(tables ...[][]rcell) bool {
	need := false
	ints := map[int64]bool{}
	flts := map[float64]bool{}
	dts := map[int64]bool{}
	for _, t := range tables {
		for _, r := range t {
			for _, c := range r {
				if c.N {
					continue
				}
				if (c.hasBI && !c.HasI) || (c.HasF && c.Fk == "odd") || (c.HasD && (c.D > 1<<30 || c.D < -(1<<30))) {
					need = true
				}
				if c.HasD {
					dts[c.D] = true
				}
				if c.hasBI {
					ints[c.bi] = true
				}
				if c.hasBF {
					flts[c.bf] = true
				}
			}
		}
	}
	if !need {
		return false
	}
	il := make([]int64, 0, len(ints))
	for v := range ints {
		il = append(il, v)
	}
	sort.Slice(il, func(a, b int) bool { return il[a] < il[b] })
	fl := make([]float64, 0, len(flts))
	for v := range flts {
		fl = append(fl, v)
	}
	sort.Float64s(fl)
	ir := map[int64]int64{}
	for k, v := range il {
		ir[v] = int64(k)
	}
	fr := map[float64]int64{}
	for k, v := range fl {
		fr[v] = int64(k)
	}
	dl := make([]int64, 0, len(dts))
	for v := range dts {
		dl = append(dl, v)
	}
	sort.Slice(dl, func(a, b int) bool { return dl[a] < dl[b] })
	dr := map[int64]int64{}
	for k, v := range dl {
		dr[v] = int64(k)
	}
	for _, t := range tables {
		for _, r := range t {
			for j := range r {
				c := &r[j]
				if c.N {
					continue
				}
				if c.HasD {
					c.D = dr[c.D] // seconds -> rank (order and equality of instants are kept)
				}
				if c.hasBI {
					c.HasI, c.I = true, ir[c.bi]
				}
				if c.hasBF {
					c.HasF, c.Fk, c.F2 = true, "num", 2*fr[c.bf]
				}
			}
		}
	}
	return true
}

// rankStrings assigns ur = rank of the upper-cased trimmed text in byte order, over all given rows.
func rankStrings(tables ...[][]rcell) { rankStringsL(nil, tables...) }

// rankStringsL also ranks literal cells referenced from condition trees.
func rankStringsL(lits []*rcell, tables ...[][]rcell) {
	set := map[string]bool{}
	for _, c := range lits {
		if c.IsS {
			set[c.u] = true
		}
	}
	for _, t := range tables {
		for _, r := range t {
			for _, c := range r {
				if c.IsS {
					set[c.u] = true
				}
			}
		}
	}
	var us []string
	for u := range set {
		us = append(us, u)
	}
	sort.Strings(us)
	rank := map[string]int{}
	for i, u := range us {
		rank[u] = i
	}
	for _, t := range tables {
		for _, r := range t {
			for k := range r {
				if r[k].IsS {
					r[k].Ur = rank[r[k].u]
				}
			}
		}
	}
	for _, c := range lits {
		if c.IsS {
			c.Ur = rank[c.u]
		}
	}
}

type rtable struct {
	Name string
	Cols []string
	Rows [][]rcell
}

func (t *rtable) write(dir string) {
	var rows [][]sut.Cell
	for _, r := range t.Rows {
		var row []sut.Cell
		for _, c := range r {
			row = append(row, sut.Cell{Null: c.N, Text: c.T})
		}
		rows = append(rows, row)
	}
	if err := sut.WriteCSV(filepath.Join(dir, t.Name+".csv"), t.Cols, rows); err != nil {
		core.Fail("write table: %v", err)
	}
}

// column generators --------------------------------------------------------

type colGen func(r *core.Run, row int) (string, bool)

func genID(r *core.Run, row int) (string, bool) { return strconv.Itoa(row + 1), false }

// numbers: integers and halves in several spellings, NULLs, duplicates
func genNum(maxv int) colGen {
	return func(r *core.Run, row int) (string, bool) {
		rng := r.Rand
		if rng.Intn(8) == 0 {
			return "", true
		}
		v := rng.Intn(2*maxv+1) - maxv
		switch rng.Intn(10) {
		case 0:
			return fmt.Sprintf("%d.5", v), false
		case 1:
			if v == 0 && rng.Intn(2) == 0 {
				return "-0.0", false // the negative zero: a float equal to 0.0
			}
			return fmt.Sprintf("%d.0", v), false
		case 2:
			return fmt.Sprintf(" %d ", v), false
		case 3:
			if v >= 0 {
				return fmt.Sprintf("0%d", v), false
			}
		}
		return strconv.Itoa(v), false
	}
}

// integers that only int64 tells apart (neighbours above 2^53, at 10^18 and at the int64 bounds)
func genBig(r *core.Run, row int) (string, bool) {
	rng := r.Rand
	if rng.Intn(10) == 0 {
		return "", true
	}
	bases := []int64{9007199254740992, -9007199254740992, 1000000000000000000, -1000000000000000000, 9223372036854775800, -9223372036854775800, 0}
	v := bases[rng.Intn(len(bases))] + int64(rng.Intn(7)-3)
	// (no floats among them: an integer is compared with a float as float64, which makes 2^53 = 2^53+1.0 = 2^53+1
	// while 2^53 < 2^53+1 - such a column has no order to sort by)
	if rng.Intn(12) == 0 {
		return " " + strconv.FormatInt(v, 10), false
	}
	return strconv.FormatInt(v, 10), false
}

// prices and measurements: decimal fractions without an exact binary form, of mixed magnitude
func genFrac(r *core.Run, row int) (string, bool) {
	rng := r.Rand
	if rng.Intn(15) == 0 {
		return "", true
	}
	switch rng.Intn(4) {
	case 0:
		return fmt.Sprintf("%d.%02d", rng.Intn(100), 1+rng.Intn(98)), false
	case 1:
		return fmt.Sprintf("0.%d", 1+rng.Intn(9)), false
	case 2:
		return fmt.Sprintf("%d.%d", 1000+rng.Intn(900000), 1+rng.Intn(9)), false
	}
	return fmt.Sprintf("-%d.%03d", rng.Intn(10), 1+rng.Intn(998)), false
}

// plain integers (canonical spelling)
func genInt(maxv int) colGen {
	return func(r *core.Run, row int) (string, bool) {
		if r.Rand.Intn(9) == 0 {
			return "", true
		}
		return strconv.Itoa(r.Rand.Intn(maxv + 1)), false
	}
}

var textPool = []string{"a", "A", " a ", "b", "B ", "ab", "Ab", "c", "x y", "é", "zz", "", "a:[S]b", "[N]", "b:[S]", "a,b", "a\"b", "q"}

func genText(r *core.Run, row int) (string, bool) {
	if r.Rand.Intn(8) == 0 {
		return "", true
	}
	return textPool[r.Rand.Intn(len(textPool))], false
}

// texts among which some read as the boolean TRUE (t, true): they are equal to each other and ordered as texts against
// other texts.  (Texts reading as different booleans are not mutually comparable - '<' between 't' and 'F' is UNKNOWN -
// and stay outside, as the property demands mutually comparable keys.)
func genTextBool(r *core.Run, row int) (string, bool) {
	if r.Rand.Intn(8) == 0 {
		return "", true
	}
	if r.Rand.Intn(4) == 0 {
		return []string{"t", "true", " True"}[r.Rand.Intn(3)], false
	}
	return textPool[r.Rand.Intn(len(textPool))], false
}

// texts among which some read as one and the same instant ('2020-01-01', '2020-01-01 00:00:00'): equal to each other as
// datetimes, and ordered as texts against the other texts ('2020-01-01' < 'a' is TRUE: nothing else applies to the pair).
// (Texts reading as different instants in notations whose alphabetical and chronological orders differ are not mutually
// comparable with the other texts and stay outside.)
func genTextDT(r *core.Run, row int) (string, bool) {
	if r.Rand.Intn(8) == 0 {
		return "", true
	}
	if r.Rand.Intn(4) == 0 {
		return []string{"2020-01-01", "2020-01-01 00:00:00", " 2020-01-01"}[r.Rand.Intn(3)], false
	}
	return textPool[r.Rand.Intn(len(textPool))], false
}

// dates written day first or month first: some only one of the two notations reads (13/02/2003, 02/13/2003), most both
func genDateAmb(r *core.Run, row int) (string, bool) {
	rng := r.Rand
	switch rng.Intn(10) {
	case 0:
		return "", true
	case 1, 2:
		return fmt.Sprintf("%02d/%02d/2003", 13+rng.Intn(16), 1+rng.Intn(12)), false
	case 3, 4, 5:
		return fmt.Sprintf("%02d/%02d/2003", 1+rng.Intn(12), 13+rng.Intn(16)), false
	}
	return fmt.Sprintf("%02d/%02d/2003", 1+rng.Intn(12), 1+rng.Intn(12)), false
}

func genDT(r *core.Run, row int) (string, bool) {
	if r.Rand.Intn(8) == 0 {
		return "", true
	}
	return fmt.Sprintf("2012-02-%02d %02d:00:00", 1+r.Rand.Intn(5), r.Rand.Intn(3)), false
}

// datetimes from year 1 to year 9999 (a count of nanoseconds since 1970 fits 64 bits only from 1678 to 2262)
func genDTFar(r *core.Run, row int) (string, bool) {
	if r.Rand.Intn(10) == 0 {
		return "", true
	}
	return []string{"0001-01-01 00:00:00", "1000-06-15 12:00:00", "1677-09-21 00:12:43", "1678-01-01 00:00:00", "1969-12-31 23:59:59", "1990-01-01 00:00:00",
		"2020-12-31 00:00:00", "2262-04-11 23:47:17", "2263-01-01 00:00:00", "9999-12-31 23:59:59"}[r.Rand.Intn(10)], false
}

// genKeyDTWrap: datetimes in pairs that lie exactly 2^64 nanoseconds apart (their UnixNano values coincide), and
// others; all different values - the strict reading (--strict-equal) and the normalised one agree on them
var dtWrapValues = func() []string {
	var out []string
	for _, s := range []string{"1500-01-01 00:00:00", "1815-06-18 11:30:00", "0900-03-04 05:06:07"} {
		t, _ := time.Parse("2006-01-02 15:04:05", s)
		u := t
		for k := 0; k < 4; k++ {
			u = u.Add(1 << 62)
		}
		out = append(out, s, u.Format("2006-01-02 15:04:05.999999999"))
	}
	return append(out, "2000-02-03 04:05:06")
}()

func genKeyDTWrap(r *core.Run, row int) (string, bool) {
	if r.Rand.Intn(10) == 0 {
		return "", true
	}
	return dtWrapValues[r.Rand.Intn(len(dtWrapValues))], false
}

func genTable(r *core.Run, name string, cols []string, gens []colGen, n int) *rtable {
	t := &rtable{Name: name, Cols: cols}
	for i := 0; i < n; i++ {
		var row []rcell
		for k := range cols {
			s, null := gens[k](r, i)
			row = append(row, classify(s, null))
		}
		t.Rows = append(t.Rows, row)
	}
	return t
}

// execution ------------------------------------------------------------------

type relRun struct {
	dir string
	p   *sut.Proc
}

func newRelRun(r *core.Run, cpu int, tables ...*rtable) *relRun {
	dir := r.Dir(fmt.Sprintf("rel.%d", time.Now().UnixNano()))
	for _, t := range tables {
		t.write(dir)
	}
	p, err := sut.NewProc(dir, map[string]interface{}{"cpu": int64(cpu)})
	if err != nil {
		core.Fail("proc: %v", err)
	}
	return &relRun{dir: dir, p: p}
}

func (x *relRun) close() {
	x.p.End()
	_ = os.RemoveAll(x.dir)
}

// query returns the result rows as classified cells, or the error class.
func (x *relRun) query(sql string) ([][]rcell, []string, string) {
	res := x.p.Exec(sql)
	if res.Err != "" {
		return nil, nil, errClass(res)
	}
	ts, err := sut.ParseJSONTables(res.Out)
	if err != nil {
		core.Fail("cannot parse output of %s: %v", sql, err)
	}
	if len(ts) == 0 {
		return [][]rcell{}, nil, ""
	}
	rows := [][]rcell{}
	for _, r := range ts[0].Rows {
		var row []rcell
		for _, c := range r {
			row = append(row, classify(c.Text, c.Null))
		}
		rows = append(rows, row)
	}
	return rows, ts[0].Header, ""
}

// validation -----------------------------------------------------------------

type relEvent struct {
	Ev  map[string]interface{}
	SQL string
	Sig string // structural signature used if TLC rejects the event
	CPU int
}

// validateRel sends the events to TLC (RelTrace); returns the indices of rejected events.
// validateRel sends the events to TLC (RelTrace); returns the indices of rejected events.  Afterwards the binding is
// demonstrated: a few accepted events are corrupted in one place (a result row dropped, a truth value flipped, a
// row number raised) and TLC must reject every one of them - otherwise the trace specification is vacuous for
// that kind of event and the run ends as an infrastructure failure.
func validateRel(r *core.Run, evs []relEvent) []int {
	rejected := validateRelRaw(r, evs)
	isRej := map[int]bool{}
	for _, i := range rejected {
		isRej[i] = true
	}
	var corrupted []relEvent
	kinds := map[string]int{}
	for i, e := range evs {
		if isRej[i] || len(corrupted) >= 8 {
			continue
		}
		k, _ := e.Ev["kind"].(string)
		if kinds[k] >= 2 {
			continue
		}
		if c, ok := corruptEvent(e.Ev); ok {
			kinds[k]++
			corrupted = append(corrupted, relEvent{Ev: c, SQL: e.SQL, Sig: e.Sig})
		}
	}
	if len(corrupted) > 0 {
		relDumpOff = true
		rej := validateRelRaw(r, corrupted)
		relDumpOff = false
		if len(rej) != len(corrupted) {
			acc := map[int]bool{}
			for i := range corrupted {
				acc[i] = true
			}
			for _, i := range rej {
				delete(acc, i)
			}
			for i := range acc {
				core.Fail("RelTrace accepts a corrupted %v event (%s): the binding is vacuous for this kind", corrupted[i].Ev["kind"], corrupted[i].SQL)
			}
		}
		r.Count("binding_selftest_corrupted_events_rejected", len(rej))
	}
	return rejected
}

// corruptEvent returns a copy of the event with one observed field changed so that it can no longer be right.
func corruptEvent(ev map[string]interface{}) (map[string]interface{}, bool) {
	var c map[string]interface{}
	if err := json.Unmarshal([]byte(core.JSON(ev)), &c); err != nil {
		return nil, false
	}
	dropLast := func(key string) bool {
		l, ok := c[key].([]interface{})
		if !ok || len(l) == 0 {
			return false
		}
		c[key] = l[:len(l)-1]
		return true
	}
	switch c["kind"] {
	case "filter", "nested", "join", "using":
		return c, dropLast("res")
	case "sort":
		lim, _ := c["lim"].(map[string]interface{})
		if lim == nil || lim["k"] != "none" {
			return nil, false
		}
		return c, dropLast("res")
	case "concat":
		return c, dropLast("whole")
	case "truth":
		l, ok := c["res"].([]interface{})
		if !ok || len(l) == 0 {
			return nil, false
		}
		if l[0] == "T" {
			l[0] = "F"
		} else {
			l[0] = "T"
		}
		return c, true
	case "analytic":
		if c["fn"] != "row_number" {
			return nil, false
		}
		parts, _ := c["parts"].([]interface{})
		if len(parts) == 0 {
			return nil, false
		}
		vals, _ := parts[0].(map[string]interface{})["vals"].([]interface{})
		if len(vals) == 0 {
			return nil, false
		}
		v := vals[0].(map[string]interface{})
		v["i"] = v["i"].(float64) + 1
		return c, true
	}
	return nil, false
}

var relDumpOff bool

func validateRelRaw(r *core.Run, evs []relEvent) []int {
	var rejected []int
	base := 0
	rest := evs
	for rounds := 0; len(rest) > 0 && rounds < 12; rounds++ {
		var b strings.Builder
		for _, e := range rest {
			b.WriteString(core.JSON(e.Ev))
			b.WriteByte('\n')
		}
		if d := os.Getenv("VERIF_DUMP"); d != "" && !relDumpOff {
			_ = os.WriteFile(d, []byte(b.String()), 0644)
		}
		res := r.RunTLC(core.TLCOpts{Module: "RelTrace", Cfg: "RelTrace.cfg", Workers: 1, Timeout: 30 * time.Minute, KeepOut: true,
			Texts: map[string]string{"trace.ndjson": b.String()}})
		if res.OK {
			break
		}
		if res.Violated != "" && res.Violated != "TraceAccepted" {
			core.Fail("RelTrace: %s %s", res.Violated, res.ErrorText)
		}
		if !strings.Contains(res.Output, "TraceAccepted") {
			tail := res.Output
			if len(tail) > 3000 {
				tail = tail[len(tail)-3000:]
			}
			core.Fail("RelTrace failed: %s\n%s", res.ErrorText, tail)
		}
		idx := res.Depth - 1
		if idx < 0 || idx >= len(rest) {
			core.Fail("RelTrace rejected at an impossible line %d of %d", idx, len(rest))
		}
		rejected = append(rejected, base+idx)
		if d := os.Getenv("VERIF_DUMP"); d != "" && !relDumpOff {
			_ = os.WriteFile(fmt.Sprintf("%s.rej%d", d, len(rejected)), []byte(core.JSON(rest[idx].Ev)), 0644)
		}
		base += idx + 1
		rest = rest[idx+1:]
	}
	return rejected
}

func cellsJSON(rows [][]rcell) [][]rcell {
	if rows == nil {
		return [][]rcell{}
	}
	return rows
}

func quoteIdent(s string) string { return "`" + s + "`" }
