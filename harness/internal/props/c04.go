package props

import (
	"fmt"
	"math"
	"sort"
	"strconv"
	"strings"
	"time"

	"verifharness/internal/core"
)

// C04 - DISTINCT, GROUP BY, set operators and aggregates bucket rows by value equality.
// Every case is executed on the real csvq and judged by TLC with the bucket definitions of Relational.tla
// (MustShare / MustSplit, first-of-bucket order, aggregates over exactly the members of a bucket).

func init() {
	Registry["C04"] = &Check{Level: "model_checking", Run: runC04}
}

// key columns whose pairs are all decided by the statement (same class and value, or unequal)
func genKeyInt(r *core.Run, row int) (string, bool) {
	rng := r.Rand
	if rng.Intn(7) == 0 {
		return "", true
	}
	v := rng.Intn(4)
	switch rng.Intn(6) {
	case 0:
		return fmt.Sprintf(" %d ", v), false
	case 1:
		return fmt.Sprintf("0%d", v), false
	case 2:
		return fmt.Sprintf("+%d", v), false
	}
	return strconv.Itoa(v), false
}

// floats in several spellings, the two zeros among them: one class of the ladder, equal iff the numbers are equal
func genKeyFloat(r *core.Run, row int) (string, bool) {
	if r.Rand.Intn(7) == 0 {
		return "", true
	}
	pool := []string{"0.5", ".5", "0.50", "5e-1", " 0.5", "1.5", "1.50", "0.0", "-0.0", "0e0", "2.5", "-1.5", "1.0", "1e0"}
	return pool[r.Rand.Intn(len(pool))], false
}

var keyTextPool = []string{"a", "A", " a ", "b", "B ", "c", "a:[S]b", "b:[S]c", "[N]", "x:y", "", "é", "É"}

func genKeyText(r *core.Run, row int) (string, bool) {
	if r.Rand.Intn(7) == 0 {
		return "", true
	}
	return keyTextPool[r.Rand.Intn(len(keyTextPool))], false
}

// hostile: values equal across ladder classes (left to the implementation: only the weak clauses apply)
var hostilePool = []string{"1", "1.0", "1.50", "1.5", "true", "T", "0", "false", " 1", "2012-02-03 00:00:00", "a"}

func genKeyHostile(r *core.Run, row int) (string, bool) {
	if r.Rand.Intn(9) == 0 {
		return "", true
	}
	return hostilePool[r.Rand.Intn(len(hostilePool))], false
}

func genHalf(r *core.Run, row int) (string, bool) {
	rng := r.Rand
	if rng.Intn(6) == 0 {
		return "", true
	}
	v := rng.Intn(21) - 5
	if rng.Intn(4) == 0 {
		return fmt.Sprintf("%d.5", v), false
	}
	return strconv.Itoa(v), false
}

func projectCells(rows [][]rcell, idx ...int) [][]rcell {
	out := [][]rcell{}
	for _, r := range rows {
		var row []rcell
		for _, i := range idx {
			row = append(row, r[i])
		}
		out = append(out, row)
	}
	return out
}

// strictKeys: under --strict-equal values are equal iff they have the same type and the same text; everything read from
// a file is a string, csvq trims it (as it does for every comparison) and keeps the letter case
func strictKeys(tables ...[][]rcell) {
	for _, t := range tables {
		for _, r := range t {
			for k := range r {
				if r[k].N {
					continue
				}
				c := rcell{T: r[k].T, IsS: true, Fk: "num", Tern: "U"}
				c.u = trimSp(r[k].T)
				r[k] = c
			}
		}
	}
}

func half2(c rcell) (int64, bool) {
	if c.N || !c.HasF || c.Fk != "num" {
		return 0, false
	}
	return c.F2, true
}

func runC04(r *core.Run) {
	r.Assume = []string{
		"pairs of values that are equal under = but sit on different rungs of the normalisation ladder ('1' vs '1.0', 'true' vs '1') are left to the implementation, as the statement and the manual do not settle them",
		"aggregates are checked on integers and halves (COUNT, SUM, MIN, MAX, AVG, MEDIAN, COUNT DISTINCT, LISTAGG of the row ids, two user-defined aggregates; exact), not on arbitrary floats (STDEV, VAR)",
		"--strict-equal is read as: same type and same text after csvq's usual trimming, letter case kept (values read from files are all strings); the statement's 'exact text' does not say whether outer spaces count",
	}
	mc := r.MustHold(core.TLCOpts{Module: "RelMC", Cfg: "RelMC_bucket.cfg", Workers: 8})
	r.Coverage["states"] = mc.Distinct
	r.Coverage["transitions"] = mc.Generated
	// the acceptance predicates themselves: satisfiable, sensitive and functional over all small inputs (RelJudge.tla)
	mj := r.MustHold(core.TLCOpts{Module: "RelJudge", Cfg: "RelJudge_bucket.cfg", Workers: 8, Timeout: 20 * time.Minute})
	r.Coverage["states"] = mc.Distinct + mj.Distinct
	r.Coverage["transitions"] = mc.Generated + mj.Generated
	ncase := 150
	if r.Thorough {
		ncase = 2000
	}
	rng := r.Rand
	var evs []relEvent
	errRep := map[string]bool{}
	add := func(sql string, sig string, cpu int, ev map[string]interface{}, tables ...[][]rcell) {
		evs = append(evs, relEvent{SQL: sql, Sig: sig, CPU: cpu, Ev: ev})
		r.Distinct(sql + fmt.Sprint(len(tables[0])))
	}
	for c := 0; c < ncase; c++ {
		n := []int{0, 1, 2, 4, 9, 30, 90, 170, 330}[rng.Intn(9)]
		kg := []colGen{genKeyInt, genKeyText}
		kind := "decided"
		if c%5 == 4 {
			kg = []colGen{genKeyHostile, genKeyText}
			kind = "hostile"
		}
		if c%7 == 5 {
			kg = []colGen{genKeyDTWrap, genKeyText}
			kind = "dtwrap"
		}
		if c%7 == 2 {
			kg = []colGen{genKeyFloat, genKeyText}
			kind = "floats"
		}
		vgen := colGen(genHalf)
		mixed := rng.Intn(3) == 0
		if mixed {
			// a measurement column with entries that are not numbers: they count as values, not as numbers
			vgen = func(r *core.Run, row int) (string, bool) {
				if r.Rand.Intn(7) == 0 {
					return []string{"n/a", "-", "x", "yes"}[r.Rand.Intn(4)], false
				}
				return genHalf(r, row)
			}
		}
		t := genTable(r, "t", []string{"id", "k1", "k2", "v"}, []colGen{genID, kg[0], kg[1], vgen}, n)
		u := genTable(r, "u", []string{"id", "k1", "k2", "v"}, []colGen{genID, kg[0], kg[1], genHalf}, []int{0, 1, 3, 20, 170}[rng.Intn(5)])
		if c%11 == 3 {
			// the rows whose internal keys would collide if text were not delimited safely
			t.Rows = append(t.Rows, []rcell{classify(strconv.Itoa(len(t.Rows)+1), false), classify("5", false), classify("a:[S]b", false), classify("1", false)})
		}
		two := rng.Intn(2) == 0
		kcols := "k1"
		kidx := []int{1}
		if two {
			kcols = "k2, k1"
			kidx = []int{2, 1}
		}
		if c%11 == 3 {
			// two text key columns built from one: ('a:[S]b','c') against ('a','b:[S]c')
			kcols = "k2, k1"
			kidx = []int{2, 1}
			t.Rows = [][]rcell{
				{classify("1", false), classify("c", false), classify("a:[S]b", false), classify("1", false)},
				{classify("2", false), classify("b:[S]c", false), classify("a", false), classify("2", false)},
				{classify("3", false), classify("C", false), classify(" A:[s]B ", false), classify("4", false)},
			}
			two = true
		}
		cpu := []int{1, 4, 8}[rng.Intn(3)]
		x := newRelRun(r, cpu, t, u)
		x.p.Exec("DECLARE ucnt AGGREGATE (list) AS BEGIN VAR @n := 0, @v; WHILE @v IN list DO @n := @n + 1; END WHILE; RETURN @n; END;" +
			"DECLARE unn AGGREGATE (list) AS BEGIN VAR @n := 0, @v; WHILE @v IN list DO IF @v IS NOT NULL THEN @n := @n + 1; END IF; END WHILE; RETURN @n; END;")
		strict := c%4 == 1 && kind == "decided"
		if strict {
			// exact type and text: everything read from a file is a string, so only identical (trimmed) texts share a bucket
			x.p.Exec("SET @@STRICT_EQUAL TO TRUE;")
			kind = "strict"
		}
		switch rng.Intn(4) {
		case 3: // PARTITION BY: several analytic functions over the same partition list, one of them re-ordering the rows
			sql := "SELECT id, COUNT(*) OVER (PARTITION BY " + kcols + ") AS n, LISTAGG(id, ',') OVER (PARTITION BY " + kcols + " ORDER BY v DESC, id) AS l, SUM(v) OVER (PARTITION BY " + kcols + ") AS s FROM t"
			if mixed {
				break
			}
			res, _, e := x.query(sql + ";")
			if e != "" {
				if !errRep[e] {
					errRep[e] = true
					r.Violation("bucket:partition:error:"+e, sql+" fails with "+e, map[string]interface{}{"sql": sql})
				}
				break
			}
			keys := projectCells(t.Rows, kidx...)
			vals := []rcell{}
			for _, row := range t.Rows {
				vals = append(vals, row[3])
			}
			per := make([]map[string]interface{}, len(t.Rows))
			okShape := len(res) == len(t.Rows)
			for _, row := range res {
				id, err := strconv.Atoi(row[0].T)
				cnt, err2 := strconv.Atoi(row[1].T)
				if err != nil || err2 != nil || id < 1 || id > len(per) {
					okShape = false
					break
				}
				s2, hs := half2(row[3])
				per[id-1] = map[string]interface{}{"cnt": cnt, "hassum": hs, "sum2": s2}
			}
			for _, m := range per {
				if m == nil {
					okShape = false
				}
			}
			if !okShape {
				if !errRep["pshape"] {
					errRep["pshape"] = true
					r.Violation("bucket:partition:shape", sql+": not one row per input row", map[string]interface{}{"sql": sql})
				}
				break
			}
			if kind == "dtwrap" {
				compressNumeric(keys)
			}
			if strict {
				strictKeys(keys)
			}
			rankStrings(keys)
			add(sql, "bucket:partition:"+kind, cpu, map[string]interface{}{"kind": "partition", "keys": keys, "vals": vals, "res": per}, t.Rows)
		case 0: // DISTINCT
			sql := "SELECT DISTINCT " + kcols + " FROM t"
			res, _, e := x.query(sql + ";")
			if e != "" {
				if !errRep[e] {
					errRep[e] = true
					r.Violation("bucket:distinct:error:"+e, sql+" fails with "+e, map[string]interface{}{"sql": sql})
				}
				break
			}
			keys := projectCells(t.Rows, kidx...)
			if kind == "dtwrap" {
				compressNumeric(keys, res)
			}
			if strict {
				strictKeys(keys, res)
			}
			rankStrings(keys, res)
			add(sql, "bucket:distinct:"+kind, cpu, map[string]interface{}{"kind": "distinct", "keys": keys, "res": cellsJSON(res)}, t.Rows)
			// aggregates of an outer query over a grouped derived table whose select list is its source's columns in their
			// order: the outer bucket holds one row per inner bucket - all of them, or the first one only (LIMIT 1)
			sql2 := "SELECT COUNT(*) AS n FROM (SELECT " + kcols + " FROM (SELECT " + kcols + " FROM t) s GROUP BY " + kcols + ") d"
			sql3 := "SELECT COUNT(*) AS n FROM (SELECT * FROM (SELECT " + kcols + " FROM t) s GROUP BY " + kcols + " LIMIT 1) d"
			r2, _, e2 := x.query(sql2 + ";")
			r3, _, e3 := x.query(sql3 + ";")
			if e2+e3 != "" {
				if !errRep[e2+e3] {
					errRep[e2+e3] = true
					r.Violation("bucket:groupnest:error:"+e2+e3, sql2+" / "+sql3+" fails with "+e2+e3, map[string]interface{}{"sql": sql2})
				}
				break
			}
			n2, err2 := strconv.Atoi(r2[0][0].T)
			n3, err3 := strconv.Atoi(r3[0][0].T)
			if err2 != nil || err3 != nil {
				n2, n3 = -1, -1
			}
			add(sql2+" / "+sql3, "bucket:groupnest:"+kind, cpu, map[string]interface{}{"kind": "groupnest", "keys": keys, "n": n2, "n1": n3}, t.Rows)
		case 1: // GROUP BY with aggregates
			sql := "SELECT " + kcols + ", COUNT(*) AS c, COUNT(v) AS cv, SUM(v) AS s, MIN(v) AS mn, MAX(v) AS mx, AVG(v) AS av, COUNT(DISTINCT 1) AS c1, COUNT(DISTINCT v) AS cd, LISTAGG(id, ',') WITHIN GROUP (ORDER BY id) AS ids, ucnt(v) AS ua, unn(v) AS un, MEDIAN(v) AS md, LISTAGG(id, ',') WITHIN GROUP (ORDER BY id * -1, LEN(k1)) AS ids2, COUNT(DISTINCT k2) AS cdk FROM t GROUP BY " + kcols
			res, _, e := x.query(sql + ";")
			if e != "" {
				if !errRep[e] {
					errRep[e] = true
					r.Violation("bucket:group:error:"+e, sql+" fails with "+e, map[string]interface{}{"sql": sql})
				}
				break
			}
			keys := projectCells(t.Rows, kidx...)
			var vals []rcell
			for _, row := range t.Rows {
				vals = append(vals, row[3])
			}
			if vals == nil {
				vals = []rcell{}
			}
			nk := len(kidx)
			var groups []map[string]interface{}
			var reskeys [][]rcell
			bad := ""
			for _, row := range res {
				g := map[string]interface{}{"key": row[:nk]}
				reskeys = append(reskeys, row[:nk])
				cnt, e1 := strconv.Atoi(row[nk].T)
				cntv, e2 := strconv.Atoi(row[nk+1].T)
				if e1 != nil || e2 != nil {
					bad = "COUNT is not an integer: " + row[nk].T + "/" + row[nk+1].T
				}
				g["cnt"], g["cntv"] = cnt, cntv
				cnt1, e3 := strconv.Atoi(row[nk+6].T)
				cntd, e4 := strconv.Atoi(row[nk+7].T)
				if e3 != nil || e4 != nil {
					bad = "COUNT is not an integer: " + row[nk+6].T + "/" + row[nk+7].T
				}
				g["cnt1"], g["cntd"] = cnt1, cntd
				ids := []int{}
				for _, f := range strings.Split(row[nk+8].T, ",") {
					id, e5 := strconv.Atoi(f)
					if e5 != nil {
						bad = "LISTAGG(id) is not a list of integers: " + row[nk+8].T
					}
					ids = append(ids, id)
				}
				sort.Ints(ids) // (under --strict-equal ORDER BY compares the ids as texts; the check is about membership)
				ids2 := []int{}
				for _, f := range strings.Split(row[nk+12].T, ",") {
					id, e5 := strconv.Atoi(f)
					if e5 != nil {
						bad = "LISTAGG(id) ordered by an expression is not a list of integers: " + row[nk+12].T
					}
					ids2 = append(ids2, id)
				}
				sort.Ints(ids2)
				g["ids2"] = ids2
				// COUNT(DISTINCT k2): the number of buckets the texts of k2 form inside the group (judged when k2 is not a grouping key)
				if cdk, e6 := strconv.Atoi(row[nk+13].T); e6 == nil {
					g["cdk"] = cdk
				} else {
					bad = "COUNT(DISTINCT k2) is not an integer: " + row[nk+13].T
				}
				ua, e6 := strconv.Atoi(row[nk+9].T)
				un, e7 := strconv.Atoi(row[nk+10].T)
				if e6 != nil || e7 != nil {
					bad = "a user-defined aggregate does not return its count: " + row[nk+9].T + "/" + row[nk+10].T
				}
				g["ids"], g["ucnt"], g["unn"] = ids, ua, un
				g["hasmed"], g["med4"] = !row[nk+11].N, 0
				if f, err := strconv.ParseFloat(row[nk+11].T, 64); err == nil && !row[nk+11].N {
					if m4 := f * 4; m4 == math.Trunc(m4) && math.Abs(m4) < 1e9 {
						g["med4"] = int(m4)
					} else {
						bad = "MEDIAN of integers and halves is not a multiple of 0.25: " + row[nk+11].T
					}
				}
				s2, ok1 := half2(row[nk+2])
				mn2, ok2 := half2(row[nk+3])
				mx2, ok3 := half2(row[nk+4])
				g["hassum"] = ok1
				g["mixed"] = mixed
				// AVG as a rational: for every possible number q of numeric cells, twice the average times q (exact if integral)
				avq := make([]map[string]interface{}, 15)
				for q := 1; q <= 15; q++ {
					avq[q-1] = map[string]interface{}{"ok": false, "v": 0}
					if f, err := strconv.ParseFloat(row[nk+5].T, 64); err == nil && !row[nk+5].N {
						x := f * 2 * float64(q)
						if math.Abs(x-math.Round(x)) < 1e-6 && math.Abs(x) < 1e8 {
							avq[q-1] = map[string]interface{}{"ok": true, "v": int(math.Round(x))}
						}
					}
				}
				g["avq"], g["hasavg"] = avq, !row[nk+5].N
				if !mixed && (ok1 != ok2 || ok1 != ok3) {
					bad = fmt.Sprintf("SUM/MIN/MAX disagree on NULL: %q %q %q", row[nk+2].T, row[nk+3].T, row[nk+4].T)
				}
				g["sum2"], g["min2"], g["max2"] = s2, mn2, mx2
				groups = append(groups, g)
			}
			if bad != "" {
				if !errRep[bad[:8]] {
					errRep[bad[:8]] = true
					r.Violation("bucket:group:aggregate-shape", sql+": "+bad, map[string]interface{}{"sql": sql})
				}
				break
			}
			if groups == nil {
				groups = []map[string]interface{}{}
			}
			if kind == "dtwrap" {
				compressNumeric(keys, reskeys)
			}
			ks := projectCells(t.Rows, 2)
			if strict {
				strictKeys(keys, reskeys, ks)
			}
			rankStrings(keys, reskeys, ks)
			add(sql, "bucket:group:"+kind, cpu, map[string]interface{}{"kind": "group", "keys": keys, "vals": vals, "res": groups, "ks": ks, "judgeks": !two && c%11 != 3}, t.Rows)
		case 2: // set operators
			op := []string{"union", "except", "intersect"}[rng.Intn(3)]
			all := rng.Intn(2) == 0
			sql := "SELECT " + kcols + " FROM t " + strings.ToUpper(op)
			if all {
				sql += " ALL"
			}
			sql += " SELECT " + kcols + " FROM u"
			res, _, e := x.query(sql + ";")
			if e != "" {
				if !errRep[e] {
					errRep[e] = true
					r.Violation("bucket:setop:error:"+e, sql+" fails with "+e, map[string]interface{}{"sql": sql})
				}
				break
			}
			A, B := projectCells(t.Rows, kidx...), projectCells(u.Rows, kidx...)
			if kind == "dtwrap" {
				compressNumeric(A, B, res)
			}
			if strict {
				strictKeys(A, B, res)
			}
			rankStrings(A, B, res)
			sig := "bucket:" + op
			if all {
				sig += "-all"
			}
			add(sql, sig+":"+kind, cpu, map[string]interface{}{"kind": "setop", "op": op, "all": all, "A": A, "B": B, "res": cellsJSON(res)}, t.Rows)
		}
		x.close()
		if c < 3 && len(evs) > 0 {
			r.Sample(map[string]interface{}{"sql": evs[len(evs)-1].SQL, "rows": n, "cpu": cpu})
		}
	}
	reported := map[string]bool{}
	for _, i := range validateRel(r, evs) {
		e := evs[i]
		if reported[e.Sig] {
			continue
		}
		reported[e.Sig] = true
		r.Violation(e.Sig, fmt.Sprintf("%s (cpu %d): the result does not bucket the rows by value equality (or an aggregate is not over exactly its bucket)", e.SQL, e.CPU),
			map[string]interface{}{"sql": e.SQL, "event": e.Ev})
	}
	r.Coverage["traces_validated_against_impl"] = len(evs)
	r.Coverage["exhaustive"] = false
}
