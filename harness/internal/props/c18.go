package props

import (
	"encoding/json"
	"fmt"
	"os"
	"sort"
	"strings"
	"time"

	"github.com/mithrandie/csvq/lib/parser"

	"verifharness/internal/core"
	"verifharness/internal/sut"
)

// C18 - the parser is total; printed queries re-parse to the same query (partial, see PrintParse.tla).
// Valid texts with known meaning come from the specifications: every pair of the value catalog under every
// operator (ValuesMC generator), the statement sweep of C14, the query shapes of the Relational checks. Each is
// parsed, printed, re-parsed and printed again (fixpoint) and evaluated from the original and from the printed
// text (same result, labels included). Byte-level mutants of the same texts go through the parser, which must
// answer with statements or a syntax error positioned inside the input (exploration, not a proof of totality).

func init() {
	Registry["C18"] = &Check{Level: "exploration", Run: runC18}
}

func printStmts(stmts []parser.Statement) (string, bool) {
	var parts []string
	for _, s := range stmts {
		st, ok := s.(fmt.Stringer)
		if !ok {
			return "", false
		}
		parts = append(parts, st.String())
	}
	return strings.Join(parts, "; "), true
}

type rtEvent struct {
	Kind     string `json:"kind"`
	Reparsed bool   `json:"reparsed"`
	P1       string `json:"p1"`
	P2       string `json:"p2"`
	Eval1    string `json:"eval1"`
	Eval2    string `json:"eval2"`
	text     string
	ansi     bool
}

func roundTrip(dir string, text string, ansi bool) (rtEvent, bool) {
	ev := rtEvent{Kind: "roundtrip", text: text, ansi: ansi}
	stmts, _, err := parser.Parse(text, "", false, ansi)
	if err != nil {
		return ev, false // not a valid text in this quoting mode: not a round-trip case
	}
	p1, ok := printStmts(stmts)
	if !ok {
		return ev, false
	}
	ev.P1 = p1
	st2, _, err2 := parser.Parse(p1, "", false, ansi)
	if err2 == nil {
		ev.Reparsed = true
		ev.P2, _ = printStmts(st2)
	} else {
		ev.P2 = "syntax error: " + err2.Error()
	}
	flags := map[string]interface{}{}
	if ansi {
		flags["ansi_quotes"] = true
	}
	run := func(s string) string {
		p, e := sut.NewProc(dir, flags)
		if e != nil {
			core.Fail("proc: %v", e)
		}
		defer p.End()
		r := p.Exec(s + ";")
		if r.Err != "" {
			return "error:" + errClass(r)
		}
		return r.Out
	}
	ev.Eval1 = run(text)
	if ev.Reparsed {
		ev.Eval2 = run(p1)
	}
	return ev, true
}

func runC18(r *core.Run) {
	r.Assume = []string{
		"partial: totality over all byte strings is a fuzzing obligation and is NOT decided here; the mutation run is a by-product exploration",
		"round-trip texts are the expressions and queries the other specifications generate (values of every class under every operator, functions, CASE/IN/BETWEEN, sub-queries, joins, set operators, analytic and aggregate clauses), in both quoting modes where they parse",
	}
	mc := r.MustHold(core.TLCOpts{Module: "ValuesMC", Cfg: "ValuesMC.cfg", Workers: 4})
	r.Coverage["states"] = mc.Distinct
	var texts []string
	// (1) operator table of the catalog (TLC generator)
	ops := []string{"=", "<>", "<", "<=", ">", ">=", "+", "-", "*", "/", "%", "AND", "OR", "||"}
	k := 0
	r.RunTLC(core.TLCOpts{Module: "ValuesMC", Cfg: "ValuesGen.cfg", Workers: 1, Timeout: 10 * time.Minute,
		OnTrace: func(raw json.RawMessage) {
			var row valRow
			if err := json.Unmarshal(raw, &row); err != nil {
				core.Fail("bad row: %v", err)
			}
			k++
			if !r.Thorough && k%7 != 0 {
				return
			}
			op := ops[k%len(ops)]
			op2 := ops[(k/3)%len(ops)]
			texts = append(texts,
				fmt.Sprintf("SELECT %s %s %s", row.A, op, row.B),
				fmt.Sprintf("SELECT (%s %s %s) %s %s, NOT %s, -%s, CASE %s WHEN %s THEN 1 ELSE %s END", row.A, op, row.B, op2, row.A, row.B, row.A, row.A, row.B, row.B),
				fmt.Sprintf("SELECT %s %s (%s %s %s), %s BETWEEN %s AND %s, %s IN (%s, %s), %s IS NOT NULL", row.A, op, row.B, op2, row.A, row.A, row.B, row.A, row.B, row.A, row.B, row.A))
		}})
	// (2) statements of the sweeps and query shapes
	texts = append(texts,
		"SELECT COUNT(*) OVER () AS r FROM tbl", "SELECT c1, SUM(c1) OVER (PARTITION BY c2 ORDER BY c1 DESC NULLS LAST ROWS BETWEEN 1 PRECEDING AND CURRENT ROW) AS r FROM tbl",
		"SELECT c1, LAG(c1, 1, 0) IGNORE NULLS OVER (ORDER BY c1) AS r FROM tbl", "SELECT c2, COUNT(DISTINCT c1) AS n, LISTAGG(c1, ',') WITHIN GROUP (ORDER BY c1) FROM tbl GROUP BY c2 HAVING COUNT(*) > 0",
		"SELECT * FROM tbl t LEFT OUTER JOIN tbl u ON t.c1 = u.c1 AND t.c2 IS NULL WHERE t.c1 NOT IN (1, 2) ORDER BY 1 LIMIT 3 OFFSET 1",
		"SELECT t.c1 FROM tbl t NATURAL JOIN tbl u", "SELECT c1 FROM tbl t FULL JOIN tbl u USING (c1)", "SELECT c1 FROM tbl UNION ALL SELECT c1 FROM tbl EXCEPT SELECT 1",
		"WITH RECURSIVE n (i) AS (SELECT 1 UNION SELECT i + 1 FROM n WHERE i < 3) SELECT i FROM n", "SELECT (SELECT MAX(c1) FROM tbl WHERE c1 < t.c1) AS m FROM tbl t",
		"SELECT c1 FROM tbl WHERE EXISTS (SELECT 1 FROM tbl u WHERE u.c1 = tbl.c1) AND c2 LIKE 'a%' ESCAPE '\\\\'", "SELECT 'it\\'s'", "SELECT 'a\\\\b'", "SELECT 'C:\\\\new\\\\'", "SELECT 'tab\\there'", "SELECT \"dq\"", "SELECT 'x' AS `b\\\\q`", "SELECT 'back\\\\' || c2 FROM tbl", "SELECT 'q\\\\' || 'r\\\\t'",
		"SELECT 1 - -2, -(-3), - 4 * -5, !TRUE, NOT NOT FALSE", "SELECT - -1", "SELECT - - -2 AS r", "SELECT 3 - - 1, + -1, - +1", "SELECT -(-(1))", "SELECT - -c1 FROM tbl",
		"DECLARE `my func` FUNCTION (@a) AS BEGIN RETURN @a + 1; END; SELECT `my func`(1) AS r", "SELECT 1 AS `select`, 2 AS `a b`, 3 AS `x``y`", "SELECT `c1` FROM `tbl` AS `t t`",
		"SELECT `values`.c1 + 1 FROM tbl AS `values`", "SELECT `order`.c1 * 2, `order`.c2 || 'x' FROM tbl `order` WHERE `order`.c1 > 1", "SELECT `true`.c1 + 0 FROM tbl `true`", "SELECT `count`.c1 - 1 FROM tbl `count`",
		"SELECT `select`.`from` + 1 FROM (SELECT c1 AS `from` FROM tbl) `select`", "SELECT `t t`.c1 + 1 FROM tbl `t t`", "SELECT `null`.1 + 1 FROM tbl `null`",
		"SELECT LISTAGG(c2, 'a') OVER () AS x, LISTAGG(c2, 'A') OVER () AS y FROM tbl", "SELECT COUNT(c1) AS n, COUNT(C1) AS m FROM tbl", "SELECT 1 + 2 * 3 - (4 - 5) - 6, (1 + 2) * 3, 10 / (5 / 5), 2 * (3 % 2)", "SELECT 'a' || 'b' || ('c' || 'd'), 1 < 2 AND 2 < 3 OR 3 < 2, (1 < 2 OR 2 < 1) AND TRUE",
		"SELECT CASE WHEN c1 > 1 THEN 'big' WHEN c1 = 1 THEN 'one' END AS r, IF(c1 > 2, c1, NULL), COALESCE(NULL, c2, 'x') FROM tbl",
		"SELECT c1 AS `my col`, c2 AS \"other\" FROM tbl ORDER BY `my col` DESC", "SELECT @v := 3, @@CPU, @%HOME IS NULL", "SELECT * FROM (SELECT c1 AS x FROM tbl) s WHERE s.x = ANY (SELECT c1 FROM tbl)",
		"SELECT ROW_NUMBER() OVER (ORDER BY c1) AS n, NTILE(2) OVER (ORDER BY c1), FIRST_VALUE(c2) OVER (PARTITION BY c1) FROM tbl", "SELECT c1 FROM tbl FOR UPDATE",
		"SELECT c1, c2 FROM tbl WHERE (c1, c2) = (1, 'a') OR (c1, c2) IN ((2, 'bb'), (3, NULL))", "SELECT DATETIME('2012-02-03') < NOW(), TRUE IS UNKNOWN, NULL IS NOT FALSE",
		"SELECT JSON_OBJECT(c1, c2) FROM tbl", "SELECT SUBSTRING(c2 FROM 1 FOR 2), TRIM(' x '), c1 BETWEEN 1 AND 2 AND c2 IS NULL FROM tbl",
		"SELECT 1 AS `a\"`, 2 AS `x\"\"y`, 3 AS `\"q\"`, 4 AS `\"`", "SELECT s.`c\"1` + 1, `d\"\"` FROM (SELECT c1 AS `c\"1`, c2 AS `d\"\"` FROM tbl) s", "SELECT 'x' AS `it''s`, 'y' AS `a\\\"b`",
		"SELECT c1 FROM tbl ORDER BY c1 FETCH FIRST 50 PERCENT ONLY", "SELECT c1 FROM tbl ORDER BY c1 DESC OFFSET 1 ROW FETCH NEXT 2 ROWS WITH TIES", "SELECT c1 FROM tbl ORDER BY c1 FETCH FIRST 1 ROW ONLY",
		"SELECT c1, (SELECT COUNT(*) FROM (SELECT c1 FROM tbl ORDER BY c1 FETCH FIRST 34 PERCENT WITH TIES) s) AS n FROM tbl ORDER BY c1 LIMIT 40 PERCENT", "SELECT c1 FROM tbl ORDER BY c1 LIMIT 2 ROWS OFFSET 1 ROWS",
		"SELECT c1 FROM tbl WHERE c1 IN (SELECT c1 FROM tbl ORDER BY c1 OFFSET 2 ROWS FETCH NEXT 60 PERCENT ROWS ONLY)",
		"SELECT ! !TRUE, !(!FALSE), ! ! !TRUE AS r, NOT !TRUE", "SELECT !(c1 > 1), ! (!(c1 > 1)) FROM tbl",
		"INSERT INTO tbl (c1, c2) VALUES (9, 'z'), (10, NULL)", "UPDATE tbl SET c2 = c2 || 'x' WHERE c1 IN (SELECT c1 FROM tbl)", "DELETE FROM tbl WHERE c1 > 100",
		"REPLACE INTO tbl (c1, c2) USING (c1) VALUES (1, 'q')", "ALTER TABLE tbl ADD (c3 DEFAULT c1 * 2) AFTER c1", "CREATE TABLE `new.csv` (a, b)",
	)
	if !r.Thorough && len(texts) > 2600 {
		texts = append(texts[:2200], texts[len(texts)-60:]...)
	}
	// (2b) expression trees of Expr.tla in their three renderings: parentheses and precedence
	nex := 150
	if r.Thorough {
		nex = 3000
	}
	for _, c := range exprCases(r, nex, r.Seed*37) {
		full := exprText(c.E, "full")
		texts = append(texts, "SELECT "+full, "SELECT "+exprText(c.E, "min"), "SELECT ("+full+") AS r, 10 - ("+full+") IS NULL")
	}
	dir := r.Dir("c18")
	writeFile(dir+"/tbl.csv", tblCSV)
	var evs []rtEvent
	results := make([]rtEvent, len(texts)*2)
	okm := make([]bool, len(texts)*2)
	core.Parallel(len(texts)*2, 8, func(i int) {
		results[i], okm[i] = roundTrip(dir, texts[i/2], i%2 == 1)
	})
	for i := range results {
		if okm[i] {
			evs = append(evs, results[i])
			r.Distinct("rt:" + results[i].text + fmt.Sprint(results[i].ansi))
		}
	}
	var lines []string
	var descr []string
	var sigs []string
	for _, e := range evs {
		lines = append(lines, core.JSON(e))
		what := "printed form changes when parsed and printed again"
		sig := "print:not-fixpoint"
		if !e.Reparsed {
			what, sig = "printed form does not parse", "print:does-not-reparse"
		} else if e.P1 == e.P2 {
			what, sig = "printed form evaluates differently from the original text", "print:evaluates-differently"
		}
		if !e.Reparsed {
			tok := "?"
			if i := strings.Index(e.P2, "unexpected token "); i >= 0 {
				tok = strings.Trim(e.P2[i+len("unexpected token "):], "\"")
			} else if strings.Contains(e.P2, "not terminated") {
				tok = "literal-not-terminated"
			}
			sigs = append(sigs, sig+":"+tok)
		} else {
			sigs = append(sigs, sig+":"+constructOf(e.text, e.P1, e.P2))
		}
		descr = append(descr, fmt.Sprintf("%s (ansi-quotes %v)\n  text:    %s\n  printed: %s\n  again:   %s\n  eval: %q vs %q", what, e.ansi, e.text, e.P1, e.P2, trunc(e.Eval1), trunc(e.Eval2)))
	}
	nrt := len(lines)
	// (3) byte-level mutants (exploration)
	nmut := 4000
	if r.Thorough {
		nmut = 100000
	}
	rng := r.Rand
	// the texts mutants are made from: the above plus statements of the procedural language and external commands (these are
	// not printed back, only parsed)
	bases := append(append([]string{}, texts...),
		"$echo \"abc\" 'd e' ${@a + 1} `x y` plain;", "$ls -l ${'a' || 'b'} \"${@v}\";", "SELECT 1;\n$echo ${@a + 1};", "$ echo 'it''s' \"q\\\"r\" ${ @a };",
		"VAR @a := 1, @b; IF @a = 1 THEN PRINT 'x'; ELSEIF @a = 2 THEN PRINT 'y'; ELSE PRINT 'z'; END IF;", "WHILE @a < 3 DO @a := @a + 1; CONTINUE; BREAK; END WHILE;",
		"DECLARE c CURSOR FOR SELECT c1 FROM tbl; OPEN c; FETCH RELATIVE -1 c INTO @a; WHILE VAR @x IN c DO PRINT @x; END WHILE; CLOSE c; DISPOSE CURSOR c;",
		"CASE @a WHEN 1 THEN PRINT 1; WHEN 2 THEN PRINT 2; ELSE EXIT 3; END CASE;", "PREPARE ps FROM 'SELECT ?, :name'; EXECUTE ps USING 1, 'x' AS name; DISPOSE PREPARE ps;",
		"SET @@DATETIME_FORMAT TO '[\"%Y\"]'; SHOW @@CPU; SHOW TABLES; SHOW FIELDS FROM tbl; ADD '%d' TO @@DATETIME_FORMAT; REMOVE 1 FROM @@DATETIME_FORMAT;",
		"SOURCE `x.sql`; TRIGGER ERROR 300 'msg'; ECHO @a; PRINTF '%s %d' USING 'a', 1; CHDIR 'sub'; PWD; RELOAD CONFIG; SYNTAX select;",
		"DECLARE f FUNCTION (@a, @b DEFAULT 2) AS BEGIN RETURN @a + @b; END; DECLARE g AGGREGATE (c, @p) AS BEGIN RETURN 1; END; DISPOSE FUNCTION f;",
		"DECLARE v VIEW (a, b) AS SELECT 1, 2; DISPOSE VIEW v; COMMIT; ROLLBACK; SELECT * FROM CSV(',', `t.csv`, 'UTF8', NO_HEADER) t JOIN JSON('{}', `j.json`) j ON TRUE;",
		"SELECT * FROM tbl WHERE c1 = ? AND c2 = :x; SELECT @a := @a + 1, @@CPU, @%HOME, @#VERSION; SELECT https://example.com/a.csv;")
	// the parser terminates: every call is given a deadline (a call that does not return cannot be stopped from outside -
	// the run records it and ends at once)
	parseDeadline := func(s string, fe, aq bool) (stmts int, err error, panicked bool, hung bool) {
		type out struct {
			n   int
			err error
			pan bool
		}
		ch := make(chan out, 1)
		go func() {
			var o out
			defer func() {
				if x := recover(); x != nil {
					o.pan = true
				}
				ch <- o
			}()
			st, _, e := parser.Parse(s, "", fe, aq)
			o.n, o.err = len(st), e
		}()
		select {
		case o := <-ch:
			return o.n, o.err, o.pan, false
		case <-time.After(1500 * time.Millisecond):
			return 0, nil, false, true
		}
	}
	for i := 0; i < nmut; i++ {
		t := bases[rng.Intn(len(bases))]
		if i%4 == 0 {
			t = bases[len(texts)+rng.Intn(len(bases)-len(texts))]
		}
		b := []byte(t)
		switch rng.Intn(6) {
		case 0:
			b = b[:rng.Intn(len(b)+1)]
		case 1:
			if len(b) > 0 {
				b[rng.Intn(len(b))] = byte(rng.Intn(256))
			}
		case 2:
			if len(b) > 0 {
				k := rng.Intn(len(b))
				b = append(b[:k], b[k+1:]...)
			}
		case 3:
			k := rng.Intn(len(b) + 1)
			ins := []string{"'", "\"", "`", "(", ")", "\\", "\n", "/*", "--", ";", "@", "\x00", "\xff", "é", "0x", "1e", "::",
				"/*\r\n*/", "/* a\r\n b\r\n c */\r\n", "\r\n", "\r", "-- x\r\n", "/* é\n */"}[rng.Intn(23)]
			b = append(b[:k], append([]byte(ins), b[k:]...)...)
		case 4:
			b = append(b, b...)
		case 5:
			k := rng.Intn(len(b) + 1)
			b = append([]byte{}, b[k:]...)
		}
		s := string(b)
		ev := map[string]interface{}{"kind": "mutant", "ok": false, "panicked": false, "line": 0, "col": 0, "lines": len(splitLines(s)), "maxcol": maxLineLen(s)}
		{
			fe, aq := rng.Intn(2) == 0, rng.Intn(2) == 0
			_, err, pan, hung := parseDeadline(s, fe, aq)
			if hung {
				r.Violation("parse:does-not-terminate", fmt.Sprintf("the parser does not return on %q (for-prepared %v, ansi-quotes %v) within 1.5 s", s, fe, aq), map[string]interface{}{"text": s})
				fmt.Println("NOTE property=C18 the run ends here: a parser call that does not return keeps allocating")
				os.Exit(r.Finish())
			}
			if pan {
				ev["panicked"] = true
			} else if err == nil {
				ev["ok"] = true
			} else if se, ok := err.(*parser.SyntaxError); ok {
				ev["line"], ev["col"] = se.Line, se.Char
			} else {
				ev["panicked"] = true
			}
		}
		lines = append(lines, core.JSON(ev))
		descr = append(descr, fmt.Sprintf("parser on %q: %v", s, ev))
		sig := "parse:position-outside-input"
		if ev["panicked"].(bool) {
			sig = "parse:panic"
		}
		sigs = append(sigs, sig)
		r.Distinct("mut:" + s)
	}
	reported := map[string]bool{}
	var rejected []int
	res := r.RunTLC(core.TLCOpts{Module: "PrintParse", Cfg: "PrintParse.cfg", Workers: 1, Timeout: 15 * time.Minute, KeepOut: true,
		// the last line is the binding self-test: a text whose printed form does not re-parse must be rejected
		Texts: map[string]string{"trace.ndjson": strings.Join(lines, "\n") + "\n" + core.JSON(map[string]interface{}{"kind": "roundtrip", "reparsed": false, "p1": "a", "p2": "", "eval1": "", "eval2": ""}) + "\n"},
		OnTrace: func(raw json.RawMessage) {
			var x struct{ Reject int }
			if err := json.Unmarshal(raw, &x); err != nil || x.Reject < 1 || x.Reject > len(lines)+1 {
				core.Fail("PrintParse printed %s", raw)
			}
			rejected = append(rejected, x.Reject-1)
		}})
	if !res.OK {
		core.Fail("PrintParse did not consume the whole trace: %s", res.ErrorText)
	}
	sort.Ints(rejected)
	if len(rejected) == 0 || rejected[len(rejected)-1] != len(lines) {
		core.Fail("binding self-test: PrintParse accepted a text that does not re-parse")
	}
	rejected = rejected[:len(rejected)-1]
	for _, g := range rejected {
		if !reported[sigs[g]] {
			reported[sigs[g]] = true
			r.Violation(sigs[g], descr[g], map[string]interface{}{"event": lines[g]})
		}
	}
	r.Coverage["events_rejected_by_TLC"] = len(rejected)
	r.Coverage["binding_selftest"] = "an appended event whose printed form does not re-parse is rejected by PrintParse in every run"
	r.Sample(map[string]interface{}{"text": evs[len(evs)/2].text, "printed": evs[len(evs)/2].P1})
	r.Coverage["evaluations"] = len(lines)
	r.Coverage["distinct_nontrivial"] = r.DistinctCount()
	r.Coverage["rule"] = "round trip: each valid text generated from the specifications (catalog pairs x operators, statement shapes), in both quoting modes: parse, print, parse, print, evaluate both; mutants: seeded byte-level mutations of those texts through the parser; non-trivial = distinct text"
	r.Coverage["roundtrip_texts"] = nrt
	r.Coverage["mutants"] = nmut
	r.Coverage["traces_validated_against_impl"] = len(lines)
}

func trunc(s string) string {
	if len(s) > 160 {
		return s[:160] + "..."
	}
	return s
}

// the scanner counts \r\n, \n and \r as line breaks
func splitLines(s string) []string {
	s = strings.ReplaceAll(s, "\r\n", "\n")
	s = strings.ReplaceAll(s, "\r", "\n")
	return strings.Split(s, "\n")
}

func maxLineLen(s string) int {
	m := 0
	for _, l := range splitLines(s) {
		if len(l) > m {
			m = len(l)
		}
	}
	return m
}

// constructOf names the first token at which two texts differ (signature of a print defect).
func constructOf(text, p1, p2 string) string {
	a, b := p1, p2
	if p1 == p2 {
		a, b = text, p1
	}
	i := 0
	for i < len(a) && i < len(b) && a[i] == b[i] {
		i++
	}
	from := i - 6
	if from < 0 {
		from = 0
	}
	to := i + 6
	if to > len(a) {
		to = len(a)
	}
	return strings.TrimSpace(a[from:to])
}
