package props

import (
	"encoding/json"
	"fmt"
	"github.com/mithrandie/csvq/lib/value"
	"path/filepath"
	"strings"
	"time"

	"verifharness/internal/core"
	"verifharness/internal/sut"
)

// C16 - a cursor walks a snapshot of its query taken at OPEN, with exact positioning (spec/Cursor.tla)

func init() {
	sp := &ActionSpec{
		ID: "C16", Module: "Cursor",
		MCCfgs: []string{"CursorMC.cfg"}, GenCfgs: []string{"CursorGen.cfg", "CursorGen_live.cfg"},
		NSim: [2]int{1500, 20000}, NRand: [2]int{60, 600},
		Setup: cursorSetup, Exec: cursorExec, Random: cursorRandom, Sig: cursorSig,
		Assume: []string{"the variables after an out-of-range FETCH are not compared (the manual says NULL, the code leaves them; the property statement does not fix it)"},
	}
	Registry["C16"] = &Check{Level: "model_checking", Run: func(r *core.Run) {
		// the poison switch of lib/value (build tag verif): a discarded value is never re-issued but marked, so that
		// a FETCH that gives away an integer it only read shows at once
		value.VerifPoison = true
		defer func() { value.VerifPoison = false }()
		runActionCheck(r, sp)
		c16Nested(r)
	}}
}

// c16Nested: one cursor name declared in two nested blocks (Scope.tla, families Sk16 and Sk17): OPEN, FETCH, CLOSE, IS OPEN
// and DISPOSE mean the innermost cursor of the name - a closed inner cursor is an error, never the rows of the open outer one
func c16Nested(r *core.Run) {
	var cases []scopeCase
	r.RunTLC(core.TLCOpts{Module: "ScopeGen", Cfg: "ScopeGen_cursors.cfg", Workers: 2, Timeout: 10 * time.Minute, OnTrace: func(raw json.RawMessage) {
		var c scopeCase
		if err := json.Unmarshal(raw, &c); err == nil && c.Prog != nil {
			if c.Out == nil {
				c.Out = []string{}
			}
			cases = append(cases, c)
		}
	}})
	if len(cases) < 500 {
		core.Fail("only %d nested-cursor programs", len(cases))
	}
	dir := r.Dir("nested")
	rep := map[string]bool{}
	for _, c := range cases {
		p, err := sut.NewProc(dir, nil)
		if err != nil {
			core.Fail("proc: %v", err)
		}
		sig, what := runScopeCase(r, p, c)
		p.End()
		if sig != "" && !rep[sig] {
			rep[sig] = true
			r.Violation("cursor:nested:"+sig, what, map[string]interface{}{"program": renderStmts(c.Prog, "")})
		}
	}
	r.Coverage["nested_cursor_programs"] = len(cases)
}

func cursorSetup(dir string, init Action) []string {
	var b strings.Builder
	b.WriteString("id,v\n")
	rows, _ := init["tbl"].([]interface{})
	for _, x := range rows {
		m := x.(map[string]interface{})
		fmt.Fprintf(&b, "%d,%d\n", aInt(m, "id"), aInt(m, "v"))
	}
	writeFile(filepath.Join(dir, "t.csv"), b.String())
	return []string{"VAR @a, @b, @p, @spare, @ia, @ib;", "PREPARE pinto FROM 'SELECT id, v INTO @ia, @ib FROM t';"}
}

func cursorQuery(q string) string {
	if q == "big" {
		return "SELECT id, v FROM t WHERE v >= 2"
	}
	return "SELECT id, v FROM t"
}

func stmtOut(p *sut.Proc, sql string) (Out, bool) {
	r := p.Exec(sql)
	if r.Err != "" {
		return Out{K: "err", E: errClass(r), Vals: []string{}}, false
	}
	return Out{K: "ok", Vals: []string{}}, true
}

func cursorExec(p *sut.Proc, a Action) Out {
	c := aStr(a, "c")
	switch actName(a) {
	case "declare":
		q := cursorQuery(aStr(a, "q"))
		if aStr(a, "q") == "into" {
			q = "pinto"
		}
		o, _ := stmtOut(p, "DECLARE "+c+" CURSOR FOR "+q+";")
		return o
	case "dispose":
		o, _ := stmtOut(p, "DISPOSE CURSOR "+c+";")
		return o
	case "open":
		o, _ := stmtOut(p, "OPEN "+c+";")
		return o
	case "close":
		o, _ := stmtOut(p, "CLOSE "+c+";")
		return o
	case "fetch":
		pos := aStr(a, "pos")
		sql := "FETCH " + pos
		viaVar := false
		// +-1000000000 in an action stands for the largest / smallest integer csvq has (beyond TLC's own integers; the
		// clamped pointer is the same)
		num := fmt.Sprint(aInt(a, "n"))
		if aInt(a, "n") == 1000000000 {
			num = "9223372036854775807"
		} else if aInt(a, "n") == -1000000000 {
			num = "-9223372036854775807"
		}
		if pos == "ABSOLUTE" || pos == "RELATIVE" {
			// every other time the position is a stored integer (a variable), not a literal: FETCH must only read it
			cnt, _ := p.User["fetches"].(int)
			p.User["fetches"] = cnt + 1
			if cnt%2 == 1 {
				viaVar = true
				p.Exec("@p := " + num + ";")
				sql += " @p"
			} else {
				sql += " " + num
			}
		}
		sql += " " + c + " INTO @a, @b;"
		if o, ok := stmtOut(p, sql); !ok {
			return o
		}
		if viaVar {
			// some further integer evaluations (a recycled object would be handed out now), then the variable again
			r0 := p.Exec("@spare := 41 + 1; @spare := 1000 + 7; PRINT @p;")
			if got := printed(r0.Out); len(got) != 1 || got[0] != num {
				return Out{K: "val", Vals: []string{"position-variable-changed-to:" + strings.Join(got, ",")}}
			}
		}
		r := p.Exec("PRINT CURSOR " + c + " IS IN RANGE;")
		if r.Err != "" {
			return Out{K: "err", E: errClass(r), Vals: []string{}}
		}
		st := printed(r.Out)
		if len(st) == 1 && st[0] == "TRUE" {
			r2 := p.Exec("PRINT @a; PRINT @b;")
			return Out{K: "val", Vals: append([]string{"TRUE"}, printed(r2.Out)...)}
		}
		return Out{K: "val", Vals: st}
	case "status":
		var vals []string
		for i, q := range []string{"IS OPEN", "IS IN RANGE", "COUNT"} {
			r := p.Exec("PRINT CURSOR " + c + " " + q + ";")
			if r.Err != "" {
				if i == 0 {
					return Out{K: "err", E: errClass(r), Vals: []string{}}
				}
				vals = append(vals, errClass(r))
				continue
			}
			vals = append(vals, printed(r.Out)...)
		}
		return Out{K: "val", Vals: vals}
	case "whilein":
		r := p.Exec("WHILE @a, @b IN " + c + " DO PRINT @a; END WHILE;")
		if r.Err != "" {
			return Out{K: "err", E: errClass(r), Vals: []string{}}
		}
		return Out{K: "val", Vals: nonNil(printed(r.Out))}
	case "whileindispose":
		r := p.Exec("WHILE @a, @b IN " + c + " DO PRINT @a; DISPOSE CURSOR " + c + "; END WHILE;")
		if r.Err != "" {
			return Out{K: "err", E: errClass(r), Vals: []string{}}
		}
		return Out{K: "val", Vals: []string{}}
	case "insert":
		o, _ := stmtOut(p, fmt.Sprintf("INSERT INTO t VALUES (%d, %d);", aInt(a, "id"), aInt(a, "v")))
		return o
	case "update":
		o, _ := stmtOut(p, fmt.Sprintf("UPDATE t SET v = v %% 3 + 1 WHERE id = %d;", aInt(a, "id")))
		return o
	case "delete":
		o, _ := stmtOut(p, fmt.Sprintf("DELETE FROM t WHERE id = %d;", aInt(a, "id")))
		return o
	case "replace":
		o, _ := stmtOut(p, fmt.Sprintf("REPLACE INTO t (id, v) USING (id) VALUES (%d, %d);", aInt(a, "id"), aInt(a, "v")))
		return o
	case "commit":
		o, _ := stmtOut(p, "COMMIT;")
		return o
	case "rollback":
		o, _ := stmtOut(p, "ROLLBACK;")
		return o
	case "show":
		r := p.Exec("SELECT id, v FROM t;")
		if r.Err != "" {
			return Out{K: "err", E: errClass(r), Vals: []string{}}
		}
		return Out{K: "val", Vals: flatCells(r.Out)}
	}
	core.Fail("unknown cursor action %v", a)
	return Out{}
}

func nonNil(l []string) []string {
	if l == nil {
		return []string{}
	}
	return l
}

// flatCells flattens the first JSON table of the output, row-major; NULL as "NULL".
func flatCells(out string) []string {
	ts, err := sut.ParseJSONTables(out)
	if err != nil {
		core.Fail("cannot parse result %q: %v", out, err)
	}
	l := []string{}
	if len(ts) == 0 {
		return l
	}
	for _, row := range ts[0].Rows {
		for _, c := range row {
			l = append(l, c.String())
		}
	}
	return l
}

func cursorA(act, c, q, pos string, n, id, v int) Action {
	return Action{"act": act, "c": c, "q": q, "pos": pos, "n": n, "id": id, "v": v}
}

// cursorRandom: longer histories over bigger tables and offsets than the model-checked constants.
func cursorRandom(r *core.Run, k int) (Action, []Action) {
	rng := r.Rand
	nrows := []int{0, 1, 2, 5, 17, 40, 170, 300}[rng.Intn(8)]
	var rows []interface{}
	for i := 1; i <= nrows; i++ {
		rows = append(rows, map[string]interface{}{"id": i, "v": 1 + rng.Intn(3)})
	}
	if rows == nil {
		rows = []interface{}{}
	}
	cs := []string{"c1", "c2", "c3"}
	var acts []Action
	n := 30 + rng.Intn(50)
	nextID := nrows + 1
	for i := 0; i < n; i++ {
		c := cs[rng.Intn(3)]
		switch x := rng.Intn(100); {
		case x < 8:
			acts = append(acts, cursorA("declare", c, []string{"all", "big", "all", "big", "into"}[rng.Intn(5)], "", 0, 0, 0))
		case x < 20:
			acts = append(acts, cursorA("open", c, "", "", 0, 0, 0))
		case x < 25:
			acts = append(acts, cursorA("close", c, "", "", 0, 0, 0))
		case x < 27:
			acts = append(acts, cursorA("dispose", c, "", "", 0, 0, 0))
		case x < 55:
			pos := []string{"NEXT", "NEXT", "PRIOR", "FIRST", "LAST", "ABSOLUTE", "RELATIVE", "RELATIVE"}[rng.Intn(8)]
			off := 0
			if pos == "ABSOLUTE" {
				off = rng.Intn(nrows+8) - 4
				if rng.Intn(6) == 0 {
					off = []int{-100000, 100000, nrows, nrows - 1}[rng.Intn(4)]
				}
			} else if pos == "RELATIVE" {
				off = rng.Intn(9) - 4
				if rng.Intn(6) == 0 {
					off = []int{-100000, 100000, -nrows, nrows, 1000000000, -1000000000}[rng.Intn(6)]
				}
			}
			acts = append(acts, cursorA("fetch", c, "", pos, off, 0, 0))
		case x < 67:
			acts = append(acts, cursorA("status", c, "", "", 0, 0, 0))
		case x < 72:
			acts = append(acts, cursorA([]string{"whilein", "whilein", "whileindispose"}[rng.Intn(3)], c, "", "", 0, 0, 0))
		case x < 80:
			acts = append(acts, cursorA("insert", "", "", "", 0, nextID, 1+rng.Intn(3)))
			nextID++
		case x < 85:
			acts = append(acts, cursorA("update", "", "", "", 0, 1+rng.Intn(nextID), 0))
		case x < 88:
			acts = append(acts, cursorA("replace", "", "", "", 0, 1+rng.Intn(nextID), 1+rng.Intn(3)))
		case x < 93:
			acts = append(acts, cursorA("delete", "", "", "", 0, 1+rng.Intn(nextID), 0))
		case x < 95:
			acts = append(acts, cursorA("commit", "", "", "", 0, 0, 0))
		case x < 97:
			acts = append(acts, cursorA("rollback", "", "", "", 0, 0, 0))
		default:
			if nrows <= 40 {
				acts = append(acts, cursorA("show", "", "", "", 0, 0, 0))
			} else {
				acts = append(acts, cursorA("status", c, "", "", 0, 0, 0))
			}
		}
	}
	return Action{"tbl": rows}, acts
}

func cursorSig(a Action, exp, obs Out) string {
	s := "cursor:" + actName(a)
	if actName(a) == "fetch" {
		s += ":" + aStr(a, "pos")
	}
	if obs.K == "err" {
		s += ":err=" + obs.E
	} else if exp.K == "err" {
		s += ":missing-err=" + exp.E
	} else {
		s += ":values"
	}
	return s
}
