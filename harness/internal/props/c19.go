package props

import (
	"bufio"
	"bytes"
	"encoding/json"
	"fmt"
	"os"
	"os/exec"
	"path/filepath"
	"sort"
	"strconv"
	"strings"
	"time"

	"github.com/mithrandie/csvq/lib/query"

	"verifharness/internal/core"
	"verifharness/internal/sut"
)

// C19 - csvq never fails internally (partial: what a specification can decide).
//  (a) Outcome.tla: file-system condition of a path x operation -> documented outcome classes; every cell is set
//      up for real and run by the real binary; TLC judges the class (never "fatal").
//  (b) Loader.tla: all ragged record shapes (<= 4 records of 1-3 fields) x no-header x allow-uneven-fields, for
//      CSV and TSV: outcome and shape of the loaded table compared with the definition; Rectangular.
//  (c) exploration with the trivial contract "value or documented error, never an internal failure": every
//      built-in function and the numeric clauses with boundary arguments; seeded random bytes as input files
//      of every format; validated by TLC against OutcomeTrace.

func init() {
	Registry["C19"] = &Check{Level: "exploration", Run: runC19}
}

func classOfBin(rs sut.BinRes) string {
	if rs.IsFatal() || rs.Signaled {
		return "fatal"
	}
	if rs.Exit == 0 {
		return "ok"
	}
	e := rs.Stderr
	switch {
	case strings.Contains(e, "does not exist"):
		return "notexist"
	case strings.Contains(e, "already exists"):
		return "exists"
	case strings.Contains(e, "lock waiting time exceeded") || strings.Contains(e, "timeout") || strings.Contains(e, "cannot be locked"):
		return "timeout"
	case strings.Contains(e, "data parse error") || strings.Contains(e, "json") || strings.Contains(e, "field length") || strings.Contains(e, "cannot detect"):
		return "parse"
	case rs.Exit == query.ReturnCodeIOError:
		return "io"
	case rs.Exit == query.ReturnCodeIncorrectUsage:
		return "usage"
	}
	return "other"
}

func runC19(r *core.Run) {
	r.Assume = []string{
		"partial: absence of internal failure over ALL byte strings and programs is not decided by a specification; decided here are the state x operation outcome matrix, record-level rectangularity, and a seeded exploration with the trivial contract (labelled as exploration)",
		"permission-dependent conditions (unreadable file, read-only directory) are not set up (the sandbox runs as root)",
	}
	// ---- design checks ----
	m1 := r.MustHold(core.TLCOpts{Module: "Loader", Cfg: "LoaderMC.cfg", Workers: 4})
	m2 := r.MustHold(core.TLCOpts{Module: "OutcomeMC", Cfg: "OutcomeMC.cfg", Workers: 4})
	r.Coverage["states"] = m1.Distinct + m2.Distinct
	var lines []string
	var descr []string
	var sigs []string
	add := func(ev map[string]interface{}, d string, sig string) {
		lines = append(lines, core.JSON(ev))
		descr = append(descr, d)
		sigs = append(sigs, sig)
	}

	// ---- (a) outcome matrix ----
	var cells [][2]string
	r.RunTLC(core.TLCOpts{Module: "OutcomeMC", Cfg: "OutcomeGen.cfg", Workers: 1, OnTrace: func(raw json.RawMessage) {
		var c struct{ State, Op string }
		_ = json.Unmarshal(raw, &c)
		cells = append(cells, [2]string{c.State, c.Op})
	}})
	sort.Slice(cells, func(i, j int) bool { return cells[i][0]+cells[i][1] < cells[j][0]+cells[j][1] })
	seenCell := map[[2]string]bool{}
	for _, c := range cells {
		if seenCell[c] {
			continue
		}
		seenCell[c] = true
		state, op := c[0], c[1]
		dir := r.Dir("oc")
		repo := filepath.Join(dir, "repo")
		_ = os.MkdirAll(repo, 0755)
		tp := filepath.Join(repo, "t.csv")
		switch state {
		case "file":
			writeFile(tp, "id,v\n1,a\n2,b\n")
		case "emptyfile":
			writeFile(tp, "")
		case "directory":
			_ = os.MkdirAll(tp, 0755)
		case "garbage":
			writeFile(tp, "\x00\xff\xfe\"unterminated,\x01\n\"\n,,,\n")
		case "locked":
			writeFile(tp, "id,v\n1,a\n")
			writeFile(filepath.Join(repo, ".t.csv.lock"), "")
		case "lockdir":
			writeFile(tp, "id,v\n1,a\n")
			_ = os.MkdirAll(filepath.Join(repo, ".t.csv.lock"), 0755)
		case "cwdremoved":
			writeFile(tp, "id,v\n1,a\n")
		}
		args := []string{"--repository", repo, "--wait-timeout", "0.2", "--quiet", "--format", "JSON"}
		var sql string
		switch op {
		case "select":
			sql = "SELECT * FROM `t.csv`"
		case "update":
			sql = "UPDATE `t.csv` SET v = 'x' WHERE id = 1"
		case "insert":
			sql = "INSERT INTO `t.csv` VALUES (9, 'z')"
		case "create":
			sql = "CREATE TABLE `t.csv` (id, v)"
		case "createifnotexists":
			sql = "CREATE TABLE IF NOT EXISTS `t.csv` (id, v)"
		case "alter":
			sql = "ALTER TABLE `t.csv` ADD w"
		case "selectout":
			sql = "SELECT * FROM `t.csv`"
			args = append(args, "--out", filepath.Join(repo, "out.txt"))
		case "source":
			sql = "SOURCE `" + tp + "`"
		case "tablefn":
			sql = "SELECT * FROM CSV(',', `t.csv`)"
		}
		var rs sut.BinRes
		if state == "cwdremoved" {
			// the process starts in a directory that no longer exists; the repository is given relatively
			gone := filepath.Join(dir, "gone")
			_ = os.MkdirAll(gone, 0755)
			script := fmt.Sprintf("cd %q && rmdir %q && exec %q --wait-timeout 0.2 --quiet --format JSON %q", gone, gone, r.Csvq, strings.ReplaceAll(sql, "`t.csv`", "`t.csv`"))
			cmd := exec.Command("sh", "-c", script)
			cmd.Env = []string{"HOME=" + dir, "TZ=UTC", "PATH=/usr/bin:/bin"}
			var so, se strings.Builder
			cmd.Stdout, cmd.Stderr = &so, &se
			done := make(chan error, 1)
			_ = cmd.Start()
			go func() { done <- cmd.Wait() }()
			select {
			case err := <-done:
				rs.Stdout, rs.Stderr = so.String(), se.String()
				if ee, ok := err.(*exec.ExitError); ok {
					rs.Exit = ee.ExitCode()
				}
			case <-time.After(20 * time.Second):
				_ = cmd.Process.Kill()
				rs.TimedOut = true
			}
		} else {
			rs = sut.RunBin(sut.BinOpts{Csvq: r.Csvq, Dir: dir, Args: append(args, sql), Timeout: 20 * time.Second})
		}
		cl := classOfBin(rs)
		add(map[string]interface{}{"kind": "matrix", "state": state, "op": op, "class": cl},
			fmt.Sprintf("state %s, %s: exit %d, %s", state, sql, rs.Exit, firstLine(rs.Stderr)), "outcome:"+state+":"+op+":"+cl)
		// the same cell with the table named without its extension (another path through the file search)
		if state != "cwdremoved" {
			sql2 := strings.ReplaceAll(sql, "`t.csv`", "t")
			if sql2 != sql {
				rs2 := sut.RunBin(sut.BinOpts{Csvq: r.Csvq, Dir: dir, Args: append(args, sql2), Timeout: 20 * time.Second})
				if rs2.IsFatal() {
					add(map[string]interface{}{"kind": "nofatal", "class": "fatal"}, fmt.Sprintf("state %s, %s: %s", state, sql2, firstLine(rs2.Stderr)), "outcome:"+state+":"+op+":noext:fatal")
				}
			}
		} else {
			gone := filepath.Join(dir, "gone2")
			_ = os.MkdirAll(gone, 0755)
			script := fmt.Sprintf("cd %q && rmdir %q && exec %q --wait-timeout 0.2 --quiet --format JSON %q", gone, gone, r.Csvq, strings.ReplaceAll(sql, "`t.csv`", "t"))
			cmd := exec.Command("sh", "-c", script)
			cmd.Env = []string{"HOME=" + dir, "TZ=UTC", "PATH=/usr/bin:/bin"}
			outb, _ := cmd.CombinedOutput()
			if strings.Contains(string(outb), "Fatal Error") || strings.Contains(string(outb), "panic:") {
				add(map[string]interface{}{"kind": "nofatal", "class": "fatal"}, fmt.Sprintf("state %s, table named without extension, %s: %s", state, sql, firstLine(string(outb))), "outcome:"+state+":"+op+":noext:fatal")
			}
		}
		_ = os.RemoveAll(dir)
		r.Distinct("matrix:" + state + op)
	}
	r.Sample(map[string]interface{}{"matrix_cells": len(seenCell), "example": descr[len(descr)/2]})

	// ---- (b) ragged records ----
	type lcase struct {
		Lens     []int `json:"lens"`
		NoHeader bool  `json:"noheader"`
		Uneven   bool  `json:"uneven"`
		Exp      struct {
			K    string `json:"k"`
			Cols int    `json:"cols"`
			Rows int    `json:"rows"`
		} `json:"exp"`
	}
	var lcases []lcase
	seenL := map[string]bool{}
	r.RunTLC(core.TLCOpts{Module: "Loader", Cfg: "LoaderGen.cfg", Workers: 1, OnTrace: func(raw json.RawMessage) {
		if seenL[string(raw)] {
			return
		}
		seenL[string(raw)] = true
		var c lcase
		if err := json.Unmarshal(raw, &c); err != nil {
			core.Fail("bad loader case: %v", err)
		}
		lcases = append(lcases, c)
	}})
	type lres struct{ sig, what string }
	lresults := make([]lres, len(lcases)*2)
	core.Parallel(len(lcases)*2, 8, func(i int) {
		c := lcases[i/2]
		format, delim, ext := "CSV", ",", "csv"
		if i%2 == 1 {
			format, delim, ext = "TSV", "\t", "tsv"
		}
		dir := r.Dir(fmt.Sprintf("ld%d", i))
		defer os.RemoveAll(dir)
		var b strings.Builder
		for ri, n := range c.Lens {
			for k := 0; k < n; k++ {
				if k > 0 {
					b.WriteString(delim)
				}
				fmt.Fprintf(&b, "x%d%d", ri, k)
			}
			b.WriteString("\n")
		}
		writeFile(filepath.Join(dir, "t."+ext), b.String())
		args := []string{"--repository", dir, "--format", "JSON", "--import-format", format, "--quiet"}
		if c.NoHeader {
			args = append(args, "--no-header")
		}
		if c.Uneven {
			args = append(args, "--allow-uneven-fields")
		}
		rs := sut.RunBin(sut.BinOpts{Csvq: r.Csvq, Dir: dir, Args: append(args, "SELECT * FROM `t."+ext+"`"), Timeout: 20 * time.Second})
		d := fmt.Sprintf("%s records of %v fields, no-header=%v allow-uneven-fields=%v: exit %d %s", format, c.Lens, c.NoHeader, c.Uneven, rs.Exit, firstLine(rs.Stderr))
		if rs.IsFatal() {
			lresults[i] = lres{"load:fatal", d}
			return
		}
		switch c.Exp.K {
		case "err":
			if rs.Exit == 0 {
				lresults[i] = lres{"load:ragged-accepted", d + " (records of different lengths must be refused without --allow-uneven-fields)"}
			}
		case "table":
			if rs.Exit != 0 {
				lresults[i] = lres{"load:refused", d}
				return
			}
			ts, err := sut.ParseJSONTables(rs.Stdout)
			if err != nil {
				lresults[i] = lres{"load:output", d + " unparsable output"}
				return
			}
			rows, cols := 0, c.Exp.Cols
			if len(ts) > 0 {
				rows = len(ts[0].Rows)
				for _, row := range ts[0].Rows {
					if len(row) != len(ts[0].Header) {
						lresults[i] = lres{"load:not-rectangular", d}
						return
					}
				}
				if rows > 0 {
					cols = len(ts[0].Header)
				}
			}
			if rows != c.Exp.Rows || cols != c.Exp.Cols {
				lresults[i] = lres{"load:shape", fmt.Sprintf("%s: loaded %d rows x %d columns, definition %d x %d", d, rows, cols, c.Exp.Rows, c.Exp.Cols)}
			}
		}
	})
	reported := map[string]bool{}
	for i, x := range lresults {
		r.Distinct(fmt.Sprintf("load:%d", i))
		cl := "ok"
		if x.sig == "load:fatal" {
			cl = "fatal"
		}
		add(map[string]interface{}{"kind": "load", "class": cl, "rectangular": x.sig != "load:not-rectangular"}, x.what, x.sig)
		if x.sig != "" && x.sig != "load:fatal" && x.sig != "load:not-rectangular" && !reported[x.sig] {
			reported[x.sig] = true
			r.Violation(x.sig, x.what, map[string]interface{}{"case": lcases[i/2]})
		}
	}

	// ---- (b2) odd tables x statement kinds x formats: whatever the file looks like, no statement fails internally ----
	{
		type shape struct{ name, csv string }
		mk := func(ext string, sh shape) string {
			rows := [][]string{}
			for _, ln := range strings.Split(strings.TrimSuffix(sh.csv, "\n"), "\n") {
				if sh.csv == "" {
					break
				}
				rows = append(rows, strings.Split(ln, ","))
			}
			switch ext {
			case "csv":
				return sh.csv
			case "tsv":
				return strings.ReplaceAll(sh.csv, ",", "\t")
			case "json", "jsonl", "ltsv":
				if len(rows) == 0 {
					return ""
				}
				return tableText(ext, rows)
			}
			return sh.csv
		}
		shapes := []shape{{"empty", ""}, {"header-only", "c1,c2\n"}, {"header-no-newline", "c1,c2"}, {"one-row", "c1,c2\n1,a\n"}, {"blank-line", "c1,c2\n\n"},
			{"newline-only", "\n"}, {"one-cell", "x"}, {"empty-names", ",\n1,2\n"}, {"dup-names", "c1,c1\n1,2\n"}}
		queries := []string{"SELECT * FROM %s", "SELECT COUNT(*) FROM %s", "SELECT COUNT(*), SUM(c1), MAX(c2) FROM %s", "SELECT c1, COUNT(*) FROM %s GROUP BY c1",
			"SELECT DISTINCT * FROM %s", "SELECT * FROM %s ORDER BY 1 LIMIT 1", "SELECT *, ROW_NUMBER() OVER () AS rn FROM %s", "SELECT * FROM %s x JOIN %s y ON x.c1 = y.c1",
			"SELECT * FROM %s UNION SELECT * FROM %s", "INSERT INTO %s VALUES (7, 'z'); SELECT * FROM %s", "UPDATE %s SET c2 = 'q'; COMMIT", "DELETE FROM %s; COMMIT",
			"ALTER TABLE %s ADD c9 DEFAULT 1; COMMIT", "ALTER TABLE %s DROP c1; COMMIT", "SHOW FIELDS FROM %s", "DECLARE cc CURSOR FOR SELECT * FROM %s; OPEN cc; FETCH LAST cc INTO @%%HOME"}
		var stmts []string
		var tags []string
		files := map[string]string{}
		for _, ext := range []string{"csv", "tsv", "json", "jsonl", "ltsv"} {
			for _, sh := range shapes {
				name := sh.name + "." + ext
				files[name] = mk(ext, sh)
				for qi, q := range queries {
					// every statement works on the pristine files: changes are rolled back (COMMITs inside are part of the statement
					// under test and are followed by restoring nothing - the later statements on that file only need not to fail internally)
					stmts = append(stmts, strings.ReplaceAll(q, "%s", "`"+name+"`")+"; ROLLBACK;")
					tags = append(tags, fmt.Sprintf("%s:%s:q%d", ext, sh.name, qi))
				}
			}
		}
		// JSON documents whose objects do not share one key set, nested values, scalars
		raw := map[string]string{
			"later-keys.json":  `[{"id":1,"name":"a"},{"id":2,"name":"b","note":"x"},{"id":3},{"zz":null}]`,
			"later-keys.jsonl": "{\"id\":1}\n{\"id\":2,\"note\":\"x\"}\n{\"other\":true}\n",
			"nested.json":      `[{"a":{"b":1,"c":[1,2]}},{"a":2},{"a":{"b":{"d":null}}}]`,
			"scalars.json":     `[1,"x",null,{"a":1},[2]]`,
			"object.json":      `{"a":1,"b":{"c":2}}`,
			"empty-key.json":   `[{"":1,"a":2},{"a":{"":3}}]`,
			"dup-key.json":     `[{"a":1,"a":2},{"A":3}]`,
		}
		for name, c := range raw {
			files[name] = c
			for qi, q := range []string{"SELECT * FROM %s", "SELECT COUNT(*) FROM %s", "SELECT * FROM %s ORDER BY 1", "SELECT * FROM %s WHERE note IS NULL", "SELECT JSON_AGG(id) FROM %s", "INSERT INTO %s VALUES (9); SELECT * FROM %s", "UPDATE %s SET id = 5; COMMIT", "SELECT * FROM JSON_TABLE('', %s)"} {
				stmts = append(stmts, strings.ReplaceAll(q, "%s", "`"+name+"`")+"; ROLLBACK;")
				tags = append(tags, fmt.Sprintf("json:%s:q%d", strings.TrimSuffix(strings.TrimSuffix(name, ".json"), ".jsonl"), qi))
			}
		}
		// combinations of clauses over sources of different shapes (a table narrowed from a wider one next to an exact-width
		// one, joins, sub-queries, set operations) with analytic functions / aggregates in the select list and in ORDER BY
		files["wide.csv"] = "a,b,c,d,e\n1,x,2,y,3\n2,x,3,y,4\n3,z,4,w,5\n"
		files["narrow.csv"] = "a\n5\n6\n"
		srcs := []string{"wide", "narrow", "wide w JOIN narrow n ON w.a < n.a", "(SELECT a FROM wide) s", "(SELECT a, b FROM wide UNION ALL SELECT a, 'n' FROM narrow) u"}
		sels := []string{"SELECT a FROM wide UNION ALL SELECT a FROM narrow", "SELECT a FROM narrow UNION ALL SELECT a FROM wide", "SELECT a FROM wide EXCEPT SELECT a FROM narrow",
			"SELECT a FROM wide INTERSECT SELECT a FROM wide", "SELECT DISTINCT a FROM wide", "SELECT a, COUNT(*) FROM wide GROUP BY a", "SELECT a FROM wide", "SELECT a FROM narrow"}
		tails := []string{"ORDER BY SUM(a) OVER (PARTITION BY a % 2), a", "ORDER BY ROW_NUMBER() OVER (ORDER BY a DESC)", "ORDER BY a DESC LIMIT 2 WITH TIES", "ORDER BY RANK() OVER (ORDER BY a) DESC, a LIMIT 50 PERCENT",
			"ORDER BY LAG(a) OVER (ORDER BY a), 1", "ORDER BY COUNT(*) OVER (), a OFFSET 1", "ORDER BY 1", ""}
		for si, sel := range sels {
			for ti, tail := range tails {
				stmts = append(stmts, sel+" "+tail+";")
				tags = append(tags, fmt.Sprintf("clauses:sel%d:tail%d", si, ti))
			}
		}
		for si, src := range srcs {
			for qi, q := range []string{"SELECT *, ROW_NUMBER() OVER (ORDER BY 1) AS rn FROM %s ORDER BY rn DESC", "SELECT COUNT(*), MAX(a) FROM %s", "SELECT a, LISTAGG(a, ',') WITHIN GROUP (ORDER BY a DESC) FROM %s GROUP BY a ORDER BY SUM(a) DESC",
				"SELECT a, SUM(a) OVER (ORDER BY a ROWS BETWEEN 1 PRECEDING AND 1 FOLLOWING) FROM %s ORDER BY 2, 1", "SELECT DISTINCT a, NTILE(2) OVER (ORDER BY a) FROM %s ORDER BY a LIMIT 3"} {
				if strings.Contains(src, "JOIN") {
					q = strings.ReplaceAll(strings.ReplaceAll(q, "MAX(a)", "MAX(w.a)"), "(a", "(w.a")
					q = strings.ReplaceAll(strings.ReplaceAll(q, "SELECT a,", "SELECT w.a,"), "BY a", "BY w.a")
					q = strings.ReplaceAll(q, "DISTINCT a,", "DISTINCT w.a,")
				}
				stmts = append(stmts, strings.ReplaceAll(q, "%s", src)+";")
				tags = append(tags, fmt.Sprintf("clauses:src%d:q%d", si, qi))
			}
		}
		cl, er := isolatedExec(r, stmts, files)
		for i := range stmts {
			r.Distinct("odd:" + tags[i])
			add(map[string]interface{}{"kind": "nofatal", "class": cl[i]}, stmts[i]+" -> "+er[i], "internal-failure:odd-table:"+tags[i][strings.Index(tags[i], ":")+1:]+":"+failKind(er[i]))
		}
		r.Coverage["odd_table_statements"] = len(stmts)
		// hostile column names through every output format
		var hs []string
		for _, names := range [][2]string{{"a", "a.b"}, {"a.b", "a"}, {"a.b", "a.b.c"}, {"", "x"}, {"a", "A"}, {"a b", "a,b"}, {"1", "2"}, {"a\"b", "c"}, {"a:b", "c"}, {"[0]", "x[1]"}, {"a..b", ".c"}, {"a\tb", "c"}} {
			for _, f := range []string{"CSV", "TSV", "LTSV", "FIXED", "JSON", "JSONL", "GFM", "ORG", "BOX", "TEXT"} {
				hs = append(hs, fmt.Sprintf("SET @@FORMAT TO %s; SELECT 1 AS `%s`, 2 AS `%s`;", f, strings.ReplaceAll(names[0], "`", ""), strings.ReplaceAll(names[1], "`", "")))
			}
		}
		cl, er = isolatedExec(r, hs, map[string]string{})
		for i := range hs {
			r.Distinct("hdr:" + hs[i])
			f := strings.Fields(hs[i])[3]
			add(map[string]interface{}{"kind": "nofatal", "class": cl[i]}, hs[i]+" -> "+er[i], "internal-failure:column-names:"+strings.TrimSuffix(f, ";")+":"+failKind(er[i]))
		}
		r.Coverage["column_name_statements"] = len(hs)
		// hostile cell contents through every output format (the renderers of TEXT / BOX / GFM / ORG measure and wrap cells)
		var cs []string
		for _, cell := range []string{`'a\rb'`, `'a\r'`, `'\r'`, `'a\r\nb'`, `'a\nb\n'`, `'a\tb'`, `''`, `' '`, `'あい'`, `'é'`, `'\u001b[31mred'`, `'a|b'`, `'\\'`, `'a\r\rb'`, `NULL`, "'\u200b'", "'\ufeff'"} {
			for _, f := range []string{"CSV", "TSV", "LTSV", "FIXED", "JSON", "JSONL", "GFM", "ORG", "BOX", "TEXT"} {
				cs = append(cs, fmt.Sprintf("SET @@FORMAT TO %s; SELECT %s AS c, 1 AS d, %s || 'x' AS e;", f, cell, cell))
			}
		}
		cl, er = isolatedExec(r, cs, map[string]string{})
		for i := range cs {
			r.Distinct("cell:" + cs[i])
			f := strings.Fields(cs[i])[3]
			add(map[string]interface{}{"kind": "nofatal", "class": cl[i]}, cs[i]+" -> "+er[i], "internal-failure:cell-contents:"+strings.TrimSuffix(f, ";")+":"+failKind(er[i]))
		}
		r.Coverage["cell_content_statements"] = len(cs)
		// external commands: what stands in ${..} is a csvq expression - or nothing that is one
		var xs []string
		for _, arg := range []string{"${ }", "${/* later */}", "${-- todo\n}", "${}", "${1; 2}", "${@undeclared}", "\"${ }\"", "${SELECT 1}", "${1 +}", "${'a' || 'b'}", "'${ }'", "${${1}}", "${\n}", "${;}"} {
			xs = append(xs, "$echo "+arg+";", "VAR @a := 1; $echo x "+arg+" ${@a};")
		}
		xs = append(xs, "$nosuchcommand_csvq_verif x;", "$;", "$ ;", "$echo;")
		cl, er = isolatedExec(r, xs, map[string]string{})
		for i := range xs {
			r.Distinct("ext:" + xs[i])
			add(map[string]interface{}{"kind": "nofatal", "class": cl[i]}, xs[i]+" -> "+er[i], "internal-failure:external-command:"+failKind(er[i]))
		}
		r.Coverage["external_command_statements"] = len(xs)
		// reports with a title that holds a name: names shorter and longer than the screen (75 columns without a terminal)
		{
			var ls []string
			lfiles := map[string]string{}
			for _, name := range []string{strings.Repeat("n", 20), strings.Repeat("n", 55), strings.Repeat("n", 66), strings.Repeat("n", 67), strings.Repeat("n", 90), strings.Repeat("漢", 34), strings.Repeat("漢", 60), strings.Repeat("n", 200)} {
				lfiles[name+".csv"] = "a,b\n1,2\n"
				ls = append(ls, "SHOW FIELDS FROM `"+name+".csv`;", "ALTER TABLE `"+name+".csv` SET DELIMITER TO ';'; ROLLBACK;", "SYNTAX "+name+";", "SELECT * FROM `"+name+".csv`;",
					"CREATE TABLE `x"+name+".csv` (a); ROLLBACK;", "SHOW TABLES;", "UPDATE `"+name+".csv` SET a = 2; SHOW TABLES; ROLLBACK;")
			}
			cl, er = isolatedExec(r, ls, lfiles)
			for i := range ls {
				r.Distinct("long:" + ls[i])
				add(map[string]interface{}{"kind": "nofatal", "class": cl[i]}, trunc(ls[i])+" -> "+er[i], "internal-failure:long-name:"+strings.Fields(ls[i])[0]+":"+failKind(er[i]))
			}
			r.Coverage["long_name_statements"] = len(ls)
		}
	}

	// ---- (c) boundary arguments of every built-in function and numeric clause ----
	bargs := []string{"0", "-1", "1", "9223372036854775807", "-9223372036854775808", "1e308", "-1e308", "FLOAT('NaN')", "FLOAT('Inf')", "NULL", "''", "'abc'", "TRUE",
		"'2012-02-03'", "2.5", "100000"}
	var names []string
	for n := range query.Functions {
		names = append(names, n)
	}
	sort.Strings(names)
	var exprs []string
	per := 14
	if r.Thorough {
		per = 120
	}
	for _, n := range names {
		exprs = append(exprs, n+"()")
		for _, a := range bargs {
			exprs = append(exprs, n+"("+a+")")
		}
		// every pair of boundary values in the second/third position after a string, and in the first two positions
		for _, b := range bargs {
			for _, c := range bargs {
				exprs = append(exprs, n+"('abcdef', "+b+", "+c+")", n+"("+b+", "+c+")")
			}
		}
		for k := 0; k < per; k++ {
			a, b, c := bargs[r.Rand.Intn(len(bargs))], bargs[r.Rand.Intn(len(bargs))], bargs[r.Rand.Intn(len(bargs))]
			switch k % 3 {
			case 0:
				exprs = append(exprs, n+"('abcdef', "+a+")")
			case 1:
				exprs = append(exprs, n+"("+a+", "+b+")")
			default:
				exprs = append(exprs, n+"('abcdef', "+b+", "+c+")")
			}
		}
	}
	var stmts []string
	for _, e := range exprs {
		stmts = append(stmts, "SELECT "+e+" AS r;")
	}
	for _, a := range bargs {
		stmts = append(stmts,
			"SELECT * FROM t ORDER BY id LIMIT "+a+";", "SELECT * FROM t ORDER BY id LIMIT "+a+" PERCENT;", "SELECT * FROM t ORDER BY id LIMIT "+a+" WITH TIES;",
			"SELECT * FROM t ORDER BY id OFFSET "+a+";", "SELECT id, NTILE("+a+") OVER (ORDER BY id) AS r FROM t;", "SELECT id, NTH_VALUE(v, "+a+") OVER (ORDER BY id) AS r FROM t;",
			"SELECT id, LAG(v, "+a+") OVER (ORDER BY id) AS r FROM t;", "SELECT id, LEAD(v, "+a+", "+a+") OVER (ORDER BY id) AS r FROM t;",
			"DECLARE c CURSOR FOR SELECT id FROM t; OPEN c; VAR @x; FETCH ABSOLUTE "+a+" c INTO @x; FETCH RELATIVE "+a+" c INTO @x;",
			"SELECT id FROM t WHERE id IN (SELECT id FROM t LIMIT "+a+");", "SELECT LISTAGG(v, "+a+") FROM t;", "SELECT id, SUM(id) OVER (ORDER BY id ROWS BETWEEN 1 PRECEDING AND CURRENT ROW) FROM t LIMIT "+a+";")
	}
	// window frames: offsets are integer literals by grammar
	for _, a := range []string{"0", "1", "100000", "9223372036854775807"} {
		for _, fn := range []string{"SUM(id)", "FIRST_VALUE(v)", "LAST_VALUE(v)", "NTH_VALUE(v, 2)", "LISTAGG(v)"} {
			for _, fr := range []string{"ROWS " + a + " PRECEDING", "ROWS BETWEEN " + a + " PRECEDING AND " + a + " FOLLOWING", "ROWS BETWEEN CURRENT ROW AND " + a + " FOLLOWING",
				"ROWS BETWEEN " + a + " FOLLOWING AND UNBOUNDED FOLLOWING", "ROWS BETWEEN " + a + " PRECEDING AND 1 PRECEDING", "ROWS BETWEEN " + a + " FOLLOWING AND " + a + " FOLLOWING"} {
				stmts = append(stmts, "SELECT id, "+fn+" OVER (ORDER BY id "+fr+") AS r FROM t;")
			}
		}
	}
	// one name several times where a list of names is expected; a statement executing a statement
	stmts = append(stmts,
		"INSERT INTO t (id, id) VALUES (1, 2); ROLLBACK;", "INSERT INTO t (id, v, id) SELECT 1, 2, 3; ROLLBACK;", "REPLACE INTO t (id, v) USING (id, id, id) VALUES (1, 'q'); ROLLBACK;",
		"REPLACE INTO t (id, id) USING (id) VALUES (1, 2); ROLLBACK;", "REPLACE INTO t (id, v) USING (v, id, v) SELECT 1, 2; ROLLBACK;", "UPDATE t SET v = 1, v = 2; ROLLBACK;",
		"ALTER TABLE t ADD (x, x); ROLLBACK;", "ALTER TABLE t DROP (v, v); ROLLBACK;", "ALTER TABLE t RENAME v TO id; ROLLBACK;", "CREATE TABLE n (a, a); ROLLBACK;",
		"SELECT id, COUNT(*) FROM t GROUP BY id, id;", "SELECT * FROM t ORDER BY id, id, v, id;", "SELECT id, SUM(id) OVER (PARTITION BY v, v ORDER BY id, id) AS r FROM t;",
		"SELECT * FROM t JOIN t u USING (id, id);", "WITH c AS (SELECT 1), c AS (SELECT 2) SELECT * FROM c;", "VAR @a, @a;", "DECLARE f FUNCTION (@a, @a) AS BEGIN RETURN 1; END;",
		"DECLARE c CURSOR FOR SELECT id, v FROM t; OPEN c; VAR @x; FETCH c INTO @x, @x;", "SELECT id AS a, v AS a FROM t ORDER BY a;", "SELECT * FROM (SELECT id AS a, v AS a FROM t) s WHERE a = 1;",
		"PREPARE p FROM 'SELECT ?'; PREPARE q FROM 'EXECUTE p USING ?'; EXECUTE q USING 1;", "PREPARE p FROM 'SELECT :a'; PREPARE q FROM 'EXECUTE p USING :a AS a'; EXECUTE q USING 1 AS a;",
		"PREPARE p FROM 'SELECT ?'; EXECUTE p;", "PREPARE p FROM 'SELECT ?'; EXECUTE p USING 1, 2;",
		"PREPARE p FROM 'SELECT id FROM t WHERE id = ?'; DECLARE c CURSOR FOR p; PREPARE q FROM 'OPEN c USING ?'; EXECUTE q USING 2;",
		"SELECT COUNT(DISTINCT 1), COUNT(DISTINCT *), COUNT(DISTINCT NULL) FROM t;",
		// statements inside a function that is called from a statement
		"DECLARE f FUNCTION (@x) AS BEGIN INSERT INTO t VALUES (9, 'z'); RETURN @x; END; SELECT f(id) FROM t; ROLLBACK;",
		"DECLARE f FUNCTION (@x) AS BEGIN INSERT INTO t VALUES (9, 'z'); RETURN @x; END; UPDATE t SET v = f(id) WHERE id = 1; ROLLBACK;",
		"DECLARE f FUNCTION (@x) AS BEGIN UPDATE t SET v = 'q'; RETURN @x; END; DELETE FROM t WHERE f(id) = 1; ROLLBACK;",
		"DECLARE f FUNCTION (@x) AS BEGIN COMMIT; RETURN @x; END; INSERT INTO t VALUES (f(5), 'w'); ROLLBACK;",
		"DECLARE f FUNCTION (@x) AS BEGIN ROLLBACK; RETURN @x; END; SELECT f(id) FROM t;",
		"DECLARE f FUNCTION (@x) AS BEGIN DECLARE c CURSOR FOR SELECT id FROM t; OPEN c; RETURN @x; END; SELECT f(id) FROM t WHERE f(id) > 0 ORDER BY f(id);")
	// FORMAT: every verb under flags, widths and precisions shorter and longer than the value, over values of every class
	for _, verb := range []string{"s", "q", "i", "T", "d", "f", "e", "b", "o", "x", "X", "%"} {
		for _, mod := range []string{"", "5", "-5", "05", "+", " ", ".0", ".1", ".5", "8.3", "-8.9", ".99", "300", ".300"} {
			for _, arg := range []string{"'ab'", "'あいう'", "NULL", "12", "-1.5", "TRUE", "DATETIME('2012-02-03')", "''"} {
				stmts = append(stmts, "SELECT FORMAT('%"+mod+verb+"', "+arg+") AS r;")
			}
		}
	}
	stmts = append(stmts, "SELECT FORMAT('%99999999999d', NULL) AS r;", "SELECT FORMAT('%.99999999999s', 'a') AS r;", "SELECT FORMAT('%s') AS r;", "SELECT FORMAT('%s %s', 1) AS r;", "SELECT FORMAT('%', 1) AS r;", "SELECT FORMAT('%5', 1) AS r;",
		"PRINTF '%.5s' USING 'ab';", "PRINTF '%9T|%-9q|' USING 1, 'x';")
	// statements that take a statement text or a name: given something else
	for _, a := range []string{"123", "NULL", "TRUE", "1.5", "DATETIME('2012-02-03')", "''", "' '", "';'", "'SELECT'", "'EXECUTE \\'SELECT 1\\''"} {
		stmts = append(stmts, "EXECUTE "+a+";", "PREPARE p FROM "+a+";", "VAR @s := "+a+"; EXECUTE @s;", "SOURCE "+a+";", "CHDIR "+a+";", "TRIGGER ERROR "+a+";", "TRIGGER ERROR 300 "+a+";", "ECHO "+a+";", "SET @@FORMAT TO "+a+";", "SET @@CPU TO "+a+";", "SET @%VERIF_X TO "+a+";")
	}
	// an aggregate query over a table without records: every function in the select list next to COUNT(*)
	for _, n := range names {
		stmts = append(stmts, "SELECT COUNT(*), "+n+"(v) FROM e;", "SELECT COUNT(*), "+n+"() FROM e;", "SELECT COUNT(*), "+n+"(v, id) FROM e;", "SELECT "+n+"(v) FROM e GROUP BY id;")
	}
	for _, x := range []string{"JSON_OBJECT(v)", "JSON_OBJECT()", "JSON_OBJECT(id, v)", "COALESCE(v, 1)", "IF(v, 1, 2)", "NULLIF(v, 1)", "IFNULL(v, 1)", "CASE WHEN v THEN 1 END", "CASE v WHEN 1 THEN 2 END", "v + 1", "v || 'x'", "v IS NULL",
		"v BETWEEN 1 AND 2", "v IN (1, 2)", "v LIKE 'a%'", "(SELECT 1)", "(v, id) = (1, 2)", "EXISTS (SELECT 1)", "v = ANY (SELECT 1)", "@@CPU", "*", "e.*", "ROW_NUMBER() OVER ()", "SUM(id) OVER ()", "LISTAGG(v)", "JSON_AGG(v)", "MEDIAN(v)", "COUNT(DISTINCT v)"} {
		stmts = append(stmts, "SELECT COUNT(*), "+x+" FROM e;", "SELECT "+x+" FROM e HAVING COUNT(*) = 0;", "SELECT COUNT(*) FROM e HAVING "+x+" IS NULL;", "SELECT COUNT(*) FROM e ORDER BY "+x+";")
	}
	// LIKE: patterns with many wildcards over a text that almost matches (the work must stay bounded)
	for _, pat := range []string{"%a%a%a%a%a%a%a%a%a%a%a%a%a%ab", "%a_a%a_a%a_a%a_a%a_a%a_a%b", "%%%%%%%%%%%%%%%%%%%%%%%%b", "_%_%_%_%_%_%_%_%_%_%_%_%_%_%b"} {
		stmts = append(stmts, "SELECT 'aaaaaaaaaaaaaaaaaaaaaaaaaaaaaaaaaaaaaaaaaaaaaaaaaaaaaaaaaaaa' LIKE '"+pat+"' AS r;")
	}
	classes, errs := isolatedExec(r, stmts, map[string]string{"t.csv": "id,v\n1,a\n2,b\n3,\n", "e.csv": "id,v\n"})
	for i, s := range stmts {
		r.Distinct(s)
		fn := s
		if k := strings.IndexAny(strings.TrimPrefix(s, "SELECT "), "( "); k > 0 {
			fn = strings.TrimPrefix(s, "SELECT ")[:k]
		}
		if strings.HasPrefix(s, "DECLARE f FUNCTION") {
			// a statement in a function called from a statement: named by the two statement kinds
			i1, i2 := strings.Index(s, "BEGIN ")+6, strings.Index(s, "END; ")+5
			fn = "nested:" + strings.Trim(strings.Fields(s[i1:])[0], ";") + "-in-" + strings.Fields(s[i2:])[0]
		}
		add(map[string]interface{}{"kind": "nofatal", "class": classes[i]}, s+" -> "+errs[i], "internal-failure:"+fn+":"+failKind(errs[i])+argClasses(s))
	}
	r.Sample(map[string]interface{}{"boundary_statements": len(stmts), "example": stmts[len(stmts)/3]})

	// ---- (d) seeded random bytes as input files ----
	nrand := 150
	if r.Thorough {
		nrand = 3000
	}
	formats := []struct{ name, ext string }{{"CSV", "csv"}, {"TSV", "tsv"}, {"LTSV", "ltsv"}, {"FIXED", "txt"}, {"JSON", "json"}, {"JSONL", "jsonl"}}
	alphabet := []string{",", "\t", "\n", "\r\n", "\"", "a", "1", " ", ":", "{", "}", "[", "]", "\\", "é", "\x00", "\xff\xfe", "日本", "null", "\"k\":", "1.5", "-", "|", "'", "\xef\xbb\xbf"}
	rclasses := make([]string, nrand)
	rdesc := make([]string, nrand)
	core.Parallel(nrand, 8, func(i int) {
		rng := core.NewRand(r.Seed*1000 + int64(i))
		f := formats[rng.Intn(len(formats))]
		var b strings.Builder
		n := rng.Intn(60)
		for k := 0; k < n; k++ {
			b.WriteString(alphabet[rng.Intn(len(alphabet))])
		}
		dir := r.Dir(fmt.Sprintf("rb%d", i))
		defer os.RemoveAll(dir)
		writeFile(filepath.Join(dir, "t."+f.ext), b.String())
		args := []string{"--repository", dir, "--format", "JSON", "--import-format", f.name, "--quiet"}
		for _, fl := range []string{"--no-header", "--allow-uneven-fields", "--without-null"} {
			if rng.Intn(3) == 0 {
				args = append(args, fl)
			}
		}
		if rng.Intn(3) == 0 {
			args = append(args, "--encoding", []string{"AUTO", "UTF8", "UTF8M", "UTF16", "SJIS"}[rng.Intn(5)])
		}
		if f.name == "FIXED" && rng.Intn(2) == 0 {
			args = append(args, "--delimiter-positions", []string{"SPACES", "[1,3]", "[2,5,9]", "S[1,2]"}[rng.Intn(4)])
		}
		if f.name == "JSON" && rng.Intn(2) == 0 {
			args = append(args, "--json-query", []string{"", "a", "a.b[0]", "[1]", "{}"}[rng.Intn(5)])
		}
		rs := sut.RunBin(sut.BinOpts{Csvq: r.Csvq, Dir: dir, Args: append(args, "SELECT * FROM `t."+f.ext+"`"), Timeout: 20 * time.Second})
		rdesc[i] = fmt.Sprintf("%s input %q flags %v: exit %d %s", f.name, b.String(), args[6:], rs.Exit, firstLine(rs.Stderr))
		rclasses[i] = "ok"
		if rs.IsFatal() {
			rclasses[i] = "fatal"
			return
		}
		if rs.Exit == 0 {
			if ts, err := sut.ParseJSONTables(rs.Stdout); err == nil && len(ts) > 0 {
				for _, row := range ts[0].Rows {
					if len(row) != len(ts[0].Header) {
						rclasses[i] = "ragged"
					}
				}
			}
		}
	})
	for i := range rclasses {
		r.Distinct(rdesc[i])
		add(map[string]interface{}{"kind": "load", "class": map[string]string{"ok": "ok", "fatal": "fatal", "ragged": "ok"}[rclasses[i]], "rectangular": rclasses[i] != "ragged"}, rdesc[i], "random-input:"+rclasses[i])
	}

	// ---- (e) valid files around the loader's internal thresholds (record-set capacity estimate after 300 records,
	// read buffers of 2 KiB / 4 KiB), in every encoding, ASCII and multi-byte contents ----
	type szjob struct {
		n    int
		enc  string
		cjk  bool
		fmtn string
	}
	var szjobs []szjob
	counts := []int{299, 300, 301, 320, 374, 400}
	if r.Thorough {
		counts = []int{1, 2, 127, 128, 299, 300, 301, 310, 320, 340, 360, 374, 375, 400, 599, 600, 601, 1000, 2048, 4097}
	}
	for _, n := range counts {
		for _, enc := range []string{"UTF8", "UTF8M", "UTF16", "SJIS"} {
			for _, cjk := range []bool{false, true} {
				for _, f := range []string{"CSV", "TSV", "LTSV"} {
					szjobs = append(szjobs, szjob{n, enc, cjk, f})
				}
			}
		}
	}
	szres := make([]string, len(szjobs))
	szdesc := make([]string, len(szjobs))
	core.Parallel(len(szjobs), 8, func(i int) {
		j := szjobs[i]
		dir := r.Dir(fmt.Sprintf("sz%d", i))
		defer os.RemoveAll(dir)
		cell := "abcdefghijklmnopqrstuvwx"
		if j.cjk {
			cell = "漢字漢字漢字漢字漢字漢字漢字漢字漢字漢字漢字漢字"
		}
		// written by csvq itself in the wanted encoding from a UTF-8 source
		var b strings.Builder
		b.WriteString("id,name\n")
		for k := 1; k <= j.n; k++ {
			fmt.Fprintf(&b, "%d,%s\n", k, cell)
		}
		writeFile(filepath.Join(dir, "src.csv"), b.String())
		ext := map[string]string{"CSV": "csv", "TSV": "tsv", "LTSV": "ltsv"}[j.fmtn]
		out := filepath.Join(dir, "t."+ext)
		w := sut.RunBin(sut.BinOpts{Csvq: r.Csvq, Dir: dir, Args: []string{"--repository", dir, "--quiet", "--format", j.fmtn, "--write-encoding", j.enc, "--out", out, "SELECT * FROM `src.csv`"}, Timeout: 30 * time.Second})
		szdesc[i] = fmt.Sprintf("%s file of %d records (%s, cjk=%v)", j.fmtn, j.n, j.enc, j.cjk)
		if w.IsFatal() || w.Exit != 0 {
			szres[i] = "fatal"
			if !w.IsFatal() {
				szres[i] = "write-refused"
			}
			szdesc[i] += ": write: " + firstLine(w.Stderr)
			return
		}
		rs := sut.RunBin(sut.BinOpts{Csvq: r.Csvq, Dir: dir, Args: []string{"--repository", dir, "--quiet", "--format", "CSV", "--import-format", j.fmtn, "--encoding", j.enc, "SELECT COUNT(*) AS n, COUNT(name) AS m, MIN(LEN(name)) AS l FROM `t." + ext + "`"}, Timeout: 30 * time.Second})
		szdesc[i] += fmt.Sprintf(": exit %d %s %s", rs.Exit, firstLine(rs.Stderr), strings.ReplaceAll(rs.Stdout, "\n", "|"))
		switch {
		case rs.IsFatal():
			szres[i] = "fatal"
		case rs.Exit != 0:
			szres[i] = "unreadable"
		case !strings.Contains(rs.Stdout, fmt.Sprintf("%d,%d,%d", j.n, j.n, len([]rune(cell)))):
			szres[i] = "wrong-count"
		default:
			szres[i] = "ok"
		}
	})
	for i, c := range szres {
		r.Distinct(szdesc[i][:strings.Index(szdesc[i], ":")])
		cl := "ok"
		if c == "fatal" {
			cl = "fatal"
		}
		add(map[string]interface{}{"kind": "load", "class": cl, "rectangular": c == "ok" || c == "fatal" || c == "unreadable" || c == "write-refused"}, szdesc[i], "load-size:"+szjobs[i].fmtn+":"+szjobs[i].enc+":"+c)
	}
	// ---- (f) the sub-commands of the binary (calc, fields, syntax) with arguments that are not what they expect ----
	{
		type sj struct {
			args  []string
			stdin string
		}
		var sjs []sj
		for _, a := range []string{"1 + 1", "c1", "1; --", "1 UNION SELECT 2", "", ")", "(", "'", "1 FROM t", "*", "c1, c2", "@a := 1", "SUM(c1)", "c1 -- x", "1 /* x", "(SELECT 1)", "c99", "NULL", "1;SELECT 2"} {
			sjs = append(sjs, sj{[]string{"calc", a}, "7,8\n"}, sj{[]string{"calc", a}, ""})
		}
		for _, a := range []string{"t", "`t.csv`", "(SELECT 1) x", "t, t", "t JOIN t u ON TRUE", "nosuch", "", ")", "STDIN", "t; SELECT 1", "t --", "CSV(',', `t.csv`)", "t.csv x y", "'t'", "1", "*"} {
			sjs = append(sjs, sj{[]string{"fields", a}, ""}, sj{[]string{"fields", a}, "a,b\n1,2\n"})
		}
		for _, a := range [][]string{{"syntax"}, {"syntax", "select"}, {"syntax", "select", "clause"}, {"syntax", ""}, {"syntax", "("}, {"syntax", "nosuchword"}, {"syntax", "\\"}, {"calc"}, {"fields"}, {"calc", "1", "2"}, {"nosuchcommand"}, {"check-update", "x"}} {
			sjs = append(sjs, sj{a, ""})
		}
		scl := make([]string, len(sjs))
		sds := make([]string, len(sjs))
		ser := make([]string, len(sjs))
		core.Parallel(len(sjs), 8, func(i int) {
			dir := r.Dir(fmt.Sprintf("sub%d", i))
			defer os.RemoveAll(dir)
			writeFile(filepath.Join(dir, "t.csv"), "id,v\n1,a\n")
			args := append([]string{"--repository", dir}, sjs[i].args...)
			if sjs[i].args[0] == "check-update" {
				scl[i], sds[i] = "ok", "skipped (needs the network)"
				return
			}
			rs := sut.RunBin(sut.BinOpts{Csvq: r.Csvq, Dir: dir, Args: args, Stdin: sjs[i].stdin, Timeout: 20 * time.Second})
			scl[i] = "ok"
			if rs.IsFatal() || rs.Signaled || rs.Exit == 2 && strings.Contains(rs.Stderr, "panic") {
				scl[i] = "fatal"
			}
			sds[i] = fmt.Sprintf("csvq %q (stdin %q): exit %d %s", sjs[i].args, sjs[i].stdin, rs.Exit, firstLine(rs.Stderr))
			ser[i] = firstLine(rs.Stderr)
		})
		for i := range sjs {
			r.Distinct("sub:" + fmt.Sprint(sjs[i]))
			add(map[string]interface{}{"kind": "nofatal", "class": scl[i]}, sds[i], "internal-failure:subcommand:"+sjs[i].args[0]+":"+failKind(ser[i]))
		}
		r.Coverage["subcommand_runs"] = len(sjs)
	}

	// ---- TLC judges every event ----
	var rejected []int
	res := r.RunTLC(core.TLCOpts{Module: "OutcomeTrace", Cfg: "OutcomeTrace.cfg", Workers: 1, Timeout: 15 * time.Minute, KeepOut: true,
		// the last line is the binding self-test: an internal failure that TLC must reject
		Texts: map[string]string{"trace.ndjson": strings.Join(lines, "\n") + "\n" + core.JSON(map[string]interface{}{"kind": "nofatal", "class": "fatal"}) + "\n"},
		OnTrace: func(raw json.RawMessage) {
			var x struct{ Reject int }
			if err := json.Unmarshal(raw, &x); err != nil || x.Reject < 1 || x.Reject > len(lines)+1 {
				core.Fail("OutcomeTrace printed %s", raw)
			}
			rejected = append(rejected, x.Reject-1)
		}})
	if !res.OK {
		core.Fail("OutcomeTrace did not consume the whole trace: %s", res.ErrorText)
	}
	sort.Ints(rejected)
	if len(rejected) == 0 || rejected[len(rejected)-1] != len(lines) {
		core.Fail("binding self-test: OutcomeTrace accepted an event of class fatal")
	}
	rejected = rejected[:len(rejected)-1]
	r.Coverage["binding_selftest"] = "an appended event of class fatal is rejected by OutcomeTrace in every run"
	for _, g := range rejected {
		if !reported[sigs[g]] {
			reported[sigs[g]] = true
			r.Violation(sigs[g], descr[g], map[string]interface{}{"event": lines[g], "what": descr[g]})
		}
	}
	r.Coverage["events_rejected_by_TLC"] = len(rejected)
	r.Coverage["evaluations"] = len(lines)
	r.Coverage["distinct_nontrivial"] = r.DistinctCount()
	r.Coverage["rule"] = "matrix: every (file-system state, operation) cell of Outcome.tla once on the real binary; loader: every ragged shape of Loader.tla x CSV/TSV; boundary: every built-in function with 0-3 boundary arguments and the numeric clauses; random: seeded byte strings per format with random flags; non-trivial = distinct case"
	r.Coverage["traces_validated_against_impl"] = len(lines)
}

// failKind reduces the message of an internal failure to its kind (makeslice, slice bounds, index out of range ...)
// argClasses names the classes of the arguments of a boundary call ("huge" = magnitude from 2^62, "big" = 100000), so
// that a known finding about one class does not hide a failure on another.
func argClasses(stmt string) string {
	i, j := strings.Index(stmt, "("), strings.LastIndex(stmt, ")")
	if !strings.HasPrefix(stmt, "SELECT ") || i < 0 || j < i || strings.Contains(stmt, " FROM ") {
		return ""
	}
	var out []string
	for _, a := range strings.Split(stmt[i+1:j], ", ") {
		c := "text"
		switch a {
		case "9223372036854775807", "-9223372036854775808", "1e308", "-1e308":
			c = "huge"
		case "100000":
			c = "big"
		case "0":
			c = "zero"
		case "-1":
			c = "neg"
		case "1", "2.5":
			c = "small"
		case "NULL":
			c = "null"
		case "''":
			c = "empty"
		case "TRUE":
			c = "bool"
		case "FLOAT('NaN')", "FLOAT('Inf')":
			c = "naninf"
		case "'2012-02-03'":
			c = "date"
		}
		out = append(out, c)
	}
	return ":" + strings.Join(out, ",")
}

func failKind(e string) string {
	e = strings.TrimPrefix(e, "[Fatal Error] ")
	e = strings.TrimPrefix(e, "runtime error: ")
	for _, k := range []string{"makeslice", "slice bounds out of range", "index out of range", "nil pointer", "output length overflow", "no answer"} {
		if strings.Contains(e, k) {
			return strings.ReplaceAll(k, " ", "-")
		}
	}
	if len(e) > 24 {
		e = e[:24]
	}
	return strings.ReplaceAll(e, " ", "-")
}

// ---------------------------------------------------------------------------
// isolated execution: statements that may exhaust memory or never return are evaluated in-process by worker
// children of this executable running under an address-space limit; a worker prints "S <i>" before and
// "D <i> <class> <error>" after each statement.  When a worker dies (out of memory) or a statement does not
// return within 12 s, the statement it was at is the culprit and a new worker continues after it.
// ---------------------------------------------------------------------------

func init() {
	Workers["__exec"] = execWorker
}

func execWorker(args []string) int {
	if len(args) < 4 {
		return 2
	}
	dir, file := args[0], args[1]
	from, _ := strconv.Atoi(args[2])
	to, _ := strconv.Atoi(args[3])
	b, err := os.ReadFile(file)
	if err != nil {
		return 2
	}
	stmts := strings.Split(string(b), "\x00")
	out := bufio.NewWriter(os.Stdout)
	defer out.Flush()
	var p *sut.Proc
	for i := from; i < to && i < len(stmts); i++ {
		fmt.Fprintf(out, "S %d\n", i)
		out.Flush()
		// one session serves many expressions; statements that declare something get a fresh one
		if p != nil && strings.Contains(stmts[i], "DECLARE") {
			p.End()
			p = nil
		}
		if p == nil {
			var err error
			if p, err = sut.NewProc(dir, nil); err != nil {
				return 2
			}
		}
		done := make(chan sut.Res, 1)
		go func(s string) { done <- p.Exec(s) }(stmts[i])
		select {
		case res := <-done:
			cl, e := "ok", ""
			if res.Fatal {
				cl, e = "fatal", firstLine(res.Err)
			}
			fmt.Fprintf(out, "D %d %s %s\n", i, cl, strings.ReplaceAll(e, "\n", " "))
			if res.Fatal {
				// a recovered panic may leave process-wide state of csvq (the goroutine budget) inconsistent: what the
				// following statements do in this process would not be what a fresh csvq does
				out.Flush()
				return 3
			}
			if res.Err != "" && strings.Contains(stmts[i], "DECLARE") {
				p.End()
				p = nil
			}
		case <-time.After(8 * time.Second):
			fmt.Fprintf(out, "D %d fatal no answer within 8 s\n", i)
			out.Flush()
			return 3 // the evaluation is still running: this process cannot be used any further
		}
	}
	if p != nil {
		p.End()
	}
	return 0
}

// isolatedExec returns, per statement, the class ("ok" | "fatal") and the error text of fatal ones.
func isolatedExec(r *core.Run, orig []string, files map[string]string) ([]string, []string) {
	// neighbours (the same function with other arguments) go to different workers: the slow ones spread out
	nw := 8
	var perm []int
	for w := 0; w < nw; w++ {
		for i := w; i < len(orig); i += nw {
			perm = append(perm, i)
		}
	}
	stmts := make([]string, len(orig))
	for k, i := range perm {
		stmts[k] = orig[i]
	}
	pc, pe := isolatedExecOrdered(r, stmts, files, nw)
	classes := make([]string, len(orig))
	errs := make([]string, len(orig))
	for k, i := range perm {
		classes[i], errs[i] = pc[k], pe[k]
	}
	return classes, errs
}

func isolatedExecOrdered(r *core.Run, stmts []string, files map[string]string, nw int) ([]string, []string) {
	classes := make([]string, len(stmts))
	errs := make([]string, len(stmts))
	self, err := os.Executable()
	if err != nil {
		core.Fail("executable: %v", err)
	}
	file := filepath.Join(r.Dir("iso"), "stmts")
	writeFile(file, strings.Join(stmts, "\x00"))
	chunk := (len(stmts) + nw - 1) / nw
	core.Parallel(nw, nw, func(w int) {
		dir := r.Dir(fmt.Sprintf("iso%d", w))
		for n, c := range files {
			writeFile(filepath.Join(dir, n), c)
		}
		from, to := w*chunk, (w+1)*chunk
		if to > len(stmts) {
			to = len(stmts)
		}
		for from < to {
			cmd := exec.Command("sh", "-c", "ulimit -v 4000000; exec \"$0\" \"$@\"", self, "__exec", dir, file, strconv.Itoa(from), strconv.Itoa(to))
			cmd.Env = append(os.Environ(), "GOMAXPROCS=2", "GOMEMLIMIT=3GiB")
			outb, _ := cmd.Output()
			cur := -1
			sc := bufio.NewScanner(bytes.NewReader(outb))
			sc.Buffer(make([]byte, 1<<20), 1<<20)
			for sc.Scan() {
				f := strings.SplitN(sc.Text(), " ", 4)
				if len(f) < 2 {
					continue
				}
				i, e := strconv.Atoi(f[1])
				if e != nil || i < from || i >= to {
					continue
				}
				switch f[0] {
				case "S":
					cur = i
				case "D":
					if len(f) >= 3 {
						classes[i] = f[2]
					}
					if len(f) == 4 {
						errs[i] = f[3]
					}
				}
			}
			if cur < 0 {
				core.Fail("isolated worker produced nothing for statements %d..%d", from, to)
			}
			if classes[cur] == "" {
				// the worker died while evaluating statement cur
				classes[cur] = "fatal"
				errs[cur] = "process killed: out of memory (address space limit 4 GB)"
			}
			from = cur + 1
			if from < to {
				// the worker ended in the middle (internal failure, no answer, killed): whatever it held - lock files, a half-written
				// table - must not make the statements after it look guilty
				if ents, err := os.ReadDir(dir); err == nil {
					for _, e := range ents {
						_ = os.RemoveAll(filepath.Join(dir, e.Name()))
					}
				}
				for n, c := range files {
					writeFile(filepath.Join(dir, n), c)
				}
			}
		}
	})
	for i := range classes {
		if classes[i] == "" {
			core.Fail("isolated execution lost statement %d", i)
		}
	}
	return classes, errs
}
