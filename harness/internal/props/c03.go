package props

import (
	"fmt"
	"path/filepath"
	"sort"
	"strconv"
	"strings"
	"time"

	"verifharness/internal/core"
)

// C03 - SELECT filters, projects and joins exactly as relational semantics prescribe.
// Conditions are small expression trees (comparison, AND/OR/NOT, IS NULL, IN, BETWEEN) evaluated by
// Relational.tla through the ladder of Values.tla; joins are defined as "all pairs satisfying the condition,
// unmatched rows padded"; USING/NATURAL merge the join columns once. Single-source queries are compared as
// sequences, joins as bags.

func init() {
	Registry["C03"] = &Check{Level: "model_checking", Run: runC03}
}

type cexpr map[string]interface{}

type condGen struct {
	r     *core.Run
	ncol  int      // number of columns addressable
	names []string // SQL name of column i (1-based index = position + 1)
	kinds []string // "num" | "text" | "int"
	lits  []*rcell // literal cells of the generated conditions (ranked together with the table cells)
}

func litNum(v int, half bool) (rcell, string) {
	if half {
		c := rcell{T: fmt.Sprintf("%d.5", v), HasF: true, Fk: "num", F2: int64(2*v + 1), Tern: "U"}
		if v < 0 {
			c.F2 = int64(2*v - 1)
		}
		return c, c.T
	}
	c := rcell{T: strconv.Itoa(v), HasI: true, I: int64(v), HasF: true, Fk: "num", F2: int64(2 * v), Tern: "U"}
	if v == 0 || v == 1 {
		c.HasB, c.B = true, v == 1
		c.Tern = map[bool]string{true: "T", false: "F"}[v == 1]
	}
	return c, c.T
}

func litStr(s string) (rcell, string) {
	return classify(s, false), "'" + strings.ReplaceAll(s, "'", "''") + "'"
}

func litNull() (rcell, string) { return classify("", true), "NULL" }

func (g *condGen) operand(kind string) (cexpr, string) {
	rng := g.r.Rand
	if rng.Intn(2) == 0 {
		// a column of the wanted kind if there is one
		var cands []int
		for i, k := range g.kinds {
			if k == kind || rng.Intn(6) == 0 {
				cands = append(cands, i)
			}
		}
		if len(cands) > 0 {
			i := cands[rng.Intn(len(cands))]
			return cexpr{"k": "col", "i": i + 1}, g.names[i]
		}
	}
	var c rcell
	var s string
	switch {
	case rng.Intn(12) == 0:
		c, s = litNull()
	case kind == "text":
		c, s = litStr(textPool[rng.Intn(len(textPool))])
	case rng.Intn(4) == 0:
		c, s = litStr([]string{"1", " 2 ", "01", "1.5", "x"}[rng.Intn(5)])
	default:
		c, s = litNum(rng.Intn(7)-2, rng.Intn(5) == 0)
	}
	pc := &rcell{}
	*pc = c
	g.lits = append(g.lits, pc)
	return cexpr{"k": "lit", "v": pc}, s
}

func (g *condGen) cond(depth int) (cexpr, string) {
	rng := g.r.Rand
	if depth > 0 && rng.Intn(3) == 0 {
		l, ls := g.cond(depth - 1)
		if rng.Intn(4) == 0 {
			return cexpr{"k": "not", "l": l}, "NOT (" + ls + ")"
		}
		rr, rs := g.cond(depth - 1)
		op := []string{"and", "or"}[rng.Intn(2)]
		return cexpr{"k": op, "l": l, "r": rr}, "(" + ls + ") " + strings.ToUpper(op) + " (" + rs + ")"
	}
	kind := []string{"num", "num", "text", "int"}[rng.Intn(4)]
	l, ls := g.operand(kind)
	switch x := rng.Intn(11); {
	case x < 6:
		op := []string{"=", "<>", "<", "<=", ">", ">="}[rng.Intn(6)]
		rr, rs := g.operand(kind)
		return cexpr{"k": "cmp", "op": op, "l": l, "r": rr}, ls + " " + op + " " + rs
	case x < 7:
		if rng.Intn(3) == 0 {
			return cexpr{"k": "not", "l": cexpr{"k": "isnull", "l": l}}, ls + " IS NOT NULL"
		}
		return cexpr{"k": "isnull", "l": l}, ls + " IS NULL"
	case x < 9:
		a, as := g.bound(kind)
		b, bs := g.bound(kind)
		if rng.Intn(3) == 0 {
			return cexpr{"k": "not", "l": cexpr{"k": "in", "l": l, "r": a, "r2": b}}, ls + " NOT IN (" + as + ", " + bs + ")"
		}
		return cexpr{"k": "in", "l": l, "r": a, "r2": b}, ls + " IN (" + as + ", " + bs + ")"
	default:
		a, as := g.bound(kind)
		b, bs := g.bound(kind)
		if rng.Intn(2) == 0 {
			return cexpr{"k": "not", "l": cexpr{"k": "between", "l": l, "r": a, "r2": b}}, ls + " NOT BETWEEN " + as + " AND " + bs
		}
		return cexpr{"k": "between", "l": l, "r": a, "r2": b}, ls + " BETWEEN " + as + " AND " + bs
	}
}

// bound is an operand of IN / BETWEEN: more often a NULL literal than elsewhere, so that the three-valued
// cases (UNKNOWN AND FALSE, UNKNOWN OR TRUE) are reached
func (g *condGen) bound(kind string) (cexpr, string) {
	if g.r.Rand.Intn(5) == 0 {
		c, s := litNull()
		pc := &rcell{}
		*pc = c
		g.lits = append(g.lits, pc)
		return cexpr{"k": "lit", "v": pc}, s
	}
	return g.operand(kind)
}

func seqInts(from, to int) []int {
	l := []int{}
	for i := from; i <= to; i++ {
		l = append(l, i)
	}
	return l
}

func runC03(r *core.Run) {
	r.Assume = []string{
		"query shapes generated: single table with WHERE and a select list; sub-query / common table expression around it; CROSS/INNER/LEFT/RIGHT/FULL joins with ON conditions and a WHERE; USING and NATURAL on one and two columns; recursive CTEs and LATERAL are not generated",
		"joins are compared as bags, single-source queries as sequences",
	}
	mc := r.MustHold(core.TLCOpts{Module: "RelMC", Cfg: "RelMC_bucket.cfg", Workers: 8})
	r.Coverage["states"] = mc.Distinct
	r.Coverage["transitions"] = mc.Generated
	// the acceptance predicates themselves: satisfiable, sensitive and functional over all small inputs (RelJudge.tla)
	mj := r.MustHold(core.TLCOpts{Module: "RelJudge", Cfg: "RelJudge_join.cfg", Workers: 8, Timeout: 20 * time.Minute})
	r.Coverage["states"] = mc.Distinct + mj.Distinct
	r.Coverage["transitions"] = mc.Generated + mj.Generated
	ncase := 220
	if r.Thorough {
		ncase = 3000
	}
	rng := r.Rand
	var evs []relEvent
	errRep := map[string]bool{}
	fail := func(sig, sql, e string) {
		if !errRep[sig+e] {
			errRep[sig+e] = true
			r.Violation(sig+":error:"+e, sql+" fails with "+e, map[string]interface{}{"sql": sql})
		}
	}
	for c := 0; c < ncase; c++ {
		cols := []string{"id", "a", "b", "k"}
		gens := []colGen{genID, genNum(3), genText, genInt(3)}
		n := []int{0, 1, 2, 3, 6, 12, 40, 170, 330}[rng.Intn(9)]
		// two shapes a uniform draw reaches too rarely get a fixed share of the cases: a FULL join on the row number of a table
		// that is split over several workers, and a recursion over a chain behind a repeated first edge combined by UNION
		forceFull, forceChain := c%20 == 7, c%11 == 5
		if forceFull {
			n = []int{170, 330}[rng.Intn(2)]
		}
		t := genTable(r, "t", cols, gens, n)
		cpu := []int{1, 4, 8}[rng.Intn(3)]
		kind := rng.Intn(13)
		if forceFull {
			kind, cpu = 6, []int{4, 8}[rng.Intn(2)]
		} else if forceChain {
			kind = 11
		}
		switch {
		case kind == 10: // LATERAL: the sub-query is evaluated for every row of the left table, seeing that row
			m := []int{0, 1, 3, 8, 25}[rng.Intn(5)]
			u := genTable(r, "u", []string{"id", "a", "b", "k"}, gens, m)
			col := []int{4, 2}[rng.Intn(2)] // correlation on k or a
			cn := []string{"", "a", "", "k"}[col-1]
			var sql, sig string
			ev := map[string]interface{}{"L": cellsJSON(t.Rows), "R": cellsJSON(u.Rows), "wl": 4, "wr": 4}
			eq := cexpr{"k": "cmp", "op": "=", "l": cexpr{"k": "col", "i": col}, "r": cexpr{"k": "col", "i": 4 + col}}
			switch rng.Intn(4) {
			case 3:
				// NATURAL LEFT JOIN over a lateral sub-query that shares no column name with t: every row of t with each of its
				// rows of the sub-query, or padded with NULLs where there is none
				sql = "SELECT * FROM t NATURAL LEFT JOIN LATERAL (SELECT u.id AS uid, u.b AS ub FROM u WHERE u." + cn + " = t." + cn + ") s"
				sig = "select:lateral:natural-left"
				ev["kind"], ev["jk"], ev["cond"], ev["where"], ev["proj"], ev["ordered"] = "join", "left", eq, cexpr{"k": "true"}, []int{1, 2, 3, 4, 5, 7}, false
			case 0:
				sql = "SELECT * FROM t CROSS JOIN LATERAL (SELECT * FROM u WHERE u." + cn + " = t." + cn + ") s"
				sig = "select:lateral:cross"
				ev["kind"], ev["jk"], ev["cond"], ev["where"], ev["proj"], ev["ordered"] = "join", "inner", eq, cexpr{"k": "true"}, seqInts(1, 8), false
			case 1:
				sql = "SELECT * FROM t LEFT JOIN LATERAL (SELECT * FROM u WHERE u." + cn + " = t." + cn + ") s ON 1 = 1"
				sig = "select:lateral:left"
				ev["kind"], ev["jk"], ev["cond"], ev["where"], ev["proj"], ev["ordered"] = "join", "left", eq, cexpr{"k": "true"}, seqInts(1, 8), false
			default:
				sql = "SELECT t.id, s.c FROM t, LATERAL (SELECT COUNT(*) AS c FROM u WHERE u." + cn + " = t." + cn + ") s"
				sig = "select:lateral:count"
				ev["kind"], ev["li"], ev["ri"] = "lateralcount", col, col
			}
			x := newRelRun(r, cpu, t, u)
			res, _, e := x.query(sql + ";")
			x.close()
			if e != "" {
				fail(sig, sql, e)
				continue
			}
			rankStrings(t.Rows, u.Rows, res)
			ev["res"] = cellsJSON(res)
			evs = append(evs, relEvent{SQL: sql, Sig: sig, CPU: cpu, Ev: ev})
		case kind >= 11: // recursive common table expression over an acyclic edge table (nodes 1..7, src < dst, some NULLs)
			ne := []int{0, 1, 3, 6, 10, 16}[rng.Intn(6)]
			var edges [][]int
			var csv strings.Builder
			csv.WriteString("src,dst\n")
			for i := 0; i < ne; i++ {
				a := 1 + rng.Intn(6)
				b := a + 1 + rng.Intn(7-a)
				switch rng.Intn(12) {
				case 0:
					a = -1
				case 1:
					b = -1
				}
				edges = append(edges, []int{a, b})
				cell := func(v int) string {
					if v == -1 {
						return ""
					}
					return fmt.Sprint(v)
				}
				csv.WriteString(cell(a) + "," + cell(b) + "\n")
			}
			k0 := 1 + rng.Intn(3)
			if forceChain || rng.Intn(3) == 0 {
				// a base result with duplicates in front of a chain: the first edge several times, then k0+1 -> k0+2 -> ..
				// (what the first step adds is not more than what UNION removes from the base result)
				var pre [][]int
				for i := 0; i < 2+rng.Intn(2); i++ {
					pre = append(pre, []int{k0, k0 + 1})
				}
				for a := k0 + 1; a < 7 && a < k0+2+rng.Intn(4); a++ {
					pre = append(pre, []int{a, a + 1})
				}
				edges = append(pre, edges...)
				csv.Reset()
				csv.WriteString("src,dst\n")
				for _, ed := range edges {
					for i, v := range ed {
						if i > 0 {
							csv.WriteString(",")
						}
						if v != -1 {
							csv.WriteString(fmt.Sprint(v))
						}
					}
					csv.WriteString("\n")
				}
			}
			all := rng.Intn(2) == 0 && !forceChain
			op := "UNION"
			if all {
				op = "UNION ALL"
			}
			sql := fmt.Sprintf("WITH RECURSIVE r (n, d) AS (SELECT dst, 1 FROM e WHERE src = %d %s SELECT e.dst, r.d + 1 FROM r JOIN e ON e.src = r.n) SELECT n, d FROM r", k0, op)
			if !all && rng.Intn(2) == 0 {
				// without the depth column equal nodes reached on different paths coincide
				sql = fmt.Sprintf("WITH RECURSIVE r (n, d) AS (SELECT dst, 0 FROM e WHERE src = %d UNION SELECT e.dst, 0 FROM r JOIN e ON e.src = r.n) SELECT n, d FROM r", k0)
			}
			x := newRelRun(r, cpu)
			writeFile(filepath.Join(x.dir, "e.csv"), csv.String())
			res, _, e := x.query(sql + ";")
			x.close()
			sig := "select:recursive:" + strings.ToLower(strings.ReplaceAll(op, " ", "-"))
			if e != "" {
				fail(sig, sql, e)
				continue
			}
			var rr [][]int
			bad := false
			for _, row := range res {
				var l []int
				for _, c := range row {
					switch {
					case c.N:
						l = append(l, -1)
					case c.HasI:
						l = append(l, int(c.I))
					default:
						bad = true
					}
				}
				rr = append(rr, l)
			}
			if bad {
				fail(sig, sql, "non-integer-result")
				continue
			}
			if rr == nil {
				rr = [][]int{}
			}
			if edges == nil {
				edges = [][]int{}
			}
			evs = append(evs, relEvent{SQL: sql, Sig: sig, CPU: cpu, Ev: map[string]interface{}{"kind": "recursive", "all": all, "k0": k0, "depth": strings.Contains(sql, "r.d + 1"), "edges": edges, "res": rr}})
		case kind < 3: // filter
			g := &condGen{r: r, names: []string{"id", "a", "b", "k"}, kinds: []string{"int", "num", "text", "int"}}
			ce, cs := g.cond(2)
			proj := seqInts(1, 4)
			sel := "*"
			switch rng.Intn(6) % 5 {
			case 0:
				proj = []int{3, 1}
				sel = "b, t.id"
			case 1:
				sel = "T.*" // names are not case-sensitive
			case 2:
				proj = []int{1, 1, 2, 3, 4}
				sel = "T.id, t.*"
			case 3:
				// any list of columns: repeated, in and out of the table's order (aliases keep the result's names apart)
				names := []string{"id", "a", "b", "k"}
				proj = nil
				var items []string
				for n := 1 + rng.Intn(5); n > 0; n-- {
					j := rng.Intn(4)
					if len(proj) > 0 && rng.Intn(3) == 0 {
						j = proj[len(proj)-1] - 1
					}
					proj = append(proj, j+1)
					items = append(items, fmt.Sprintf("%s AS c%d", names[j], len(proj)))
				}
				if rng.Intn(2) == 0 {
					// ... in the table's order (a list the projection could serve by moving cells within the record)
					sort.Ints(proj)
					items = nil
					for i, j := range proj {
						items = append(items, fmt.Sprintf("%s AS c%d", names[j-1], i+1))
					}
				}
				sel = strings.Join(items, ", ")
			}
			sql := "SELECT " + sel + " FROM t WHERE " + cs
			x := newRelRun(r, cpu, t)
			res, _, e := x.query(sql + ";")
			x.close()
			if e != "" {
				fail("select:filter", sql, e)
				continue
			}
			rankStringsL(g.lits, t.Rows, res)
			evs = append(evs, relEvent{SQL: sql, Sig: "select:filter", CPU: cpu, Ev: map[string]interface{}{"kind": "filter", "in": cellsJSON(t.Rows), "cond": ce, "proj": proj, "res": cellsJSON(res)}})
		case kind < 5 && rng.Intn(2) == 0: // the three-valued result of a condition, row by row, in the select list
			g := &condGen{r: r, names: []string{"id", "a", "b", "k"}, kinds: []string{"int", "num", "text", "int"}}
			ce, cs := g.cond(2)
			sql := "SELECT (" + cs + ") AS c FROM t"
			x := newRelRun(r, cpu, t)
			res, _, e := x.query(sql + ";")
			x.close()
			if e != "" {
				fail("select:truth", sql, e)
				continue
			}
			tv := []string{}
			for _, row := range res {
				switch {
				case row[0].N:
					tv = append(tv, "U")
				case row[0].T == "true":
					tv = append(tv, "T")
				case row[0].T == "false":
					tv = append(tv, "F")
				default:
					tv = append(tv, "?"+row[0].T)
				}
			}
			rankStringsL(g.lits, t.Rows, nil)
			evs = append(evs, relEvent{SQL: sql, Sig: "select:truth", CPU: cpu, Ev: map[string]interface{}{"kind": "truth", "in": cellsJSON(t.Rows), "cond": ce, "res": tv}})
		case kind < 5: // nested: sub-query or CTE
			g := &condGen{r: r, names: []string{"id", "a", "b", "k"}, kinds: []string{"int", "num", "text", "int"}}
			c1, s1 := g.cond(1)
			g2 := &condGen{r: r, names: []string{"s.b", "s.id", "s.a"}, kinds: []string{"text", "int", "num"}}
			c2, s2 := g2.cond(1)
			inner := "SELECT b, id, a FROM t WHERE " + s1
			sql := "SELECT s.a, s.id FROM (" + inner + ") s WHERE " + s2
			sig := "select:subquery"
			two := false
			switch rng.Intn(3) {
			case 0:
				sql = "WITH s AS (" + inner + ") SELECT s.a, s.id FROM s WHERE " + s2
				sig = "select:cte"
			case 1:
				// the common table expression referenced twice, with different projections
				sql = "WITH s AS (" + inner + ") SELECT s.a, s.id FROM s WHERE " + s2 + " UNION ALL SELECT s.id, s.b FROM s"
				sig = "select:cte-twice"
				two = true
			}
			x := newRelRun(r, cpu, t)
			res, _, e := x.query(sql + ";")
			x.close()
			if e != "" {
				fail(sig, sql, e)
				continue
			}
			rankStringsL(append(g.lits, g2.lits...), t.Rows, res)
			kd := "nested"
			if two {
				kd = "cte2"
			}
			evs = append(evs, relEvent{SQL: sql, Sig: sig, CPU: cpu, Ev: map[string]interface{}{"kind": kd, "in": cellsJSON(t.Rows), "cond": c1, "proj": []int{3, 1, 2},
				"cond2": c2, "proj2": []int{3, 2}, "proj3": []int{2, 1}, "res": cellsJSON(res)}})
		case kind < 8: // ON joins
			m := []int{0, 1, 2, 4, 9, 25, 170}[rng.Intn(7)]
			if n > 170 {
				m = []int{0, 2, 9}[rng.Intn(3)]
			}
			if forceFull {
				m = []int{9, 14}[rng.Intn(2)]
			}
			if lim := 2500; !r.Thorough && n*m > lim {
				m = lim / n
			}
			u := genTable(r, "u", []string{"id", "a", "b", "k"}, gens, m)
			jk := []string{"cross", "inner", "left", "right", "full"}[rng.Intn(5)]
			if forceFull {
				jk = "full"
			}
			names := []string{"t.id", "t.a", "t.b", "t.k", "u.id", "u.a", "u.b", "u.k"}
			kinds := []string{"int", "num", "text", "int", "int", "num", "text", "int"}
			g := &condGen{r: r, names: names, kinds: kinds}
			var on cexpr = cexpr{"k": "true"}
			sql := "SELECT * FROM t CROSS JOIN u"
			if jk != "cross" {
				op := []string{"=", "=", "=", "<", ">="}[rng.Intn(5)]
				col := []int{4, 2, 3, 1, 1}[rng.Intn(5)] // k, a, b or id (every row has its partner in one chunk of the other table only)
				if forceFull {
					op, col = "=", 1
				}
				on = cexpr{"k": "cmp", "op": op, "l": cexpr{"k": "col", "i": col}, "r": cexpr{"k": "col", "i": 4 + col}}
				ons := names[col-1] + " " + op + " " + names[3+col]
				if rng.Intn(3) == 0 {
					extra, es := g.cond(0)
					on = cexpr{"k": "and", "l": on, "r": extra}
					ons = "(" + ons + ") AND (" + es + ")"
				}
				sql = "SELECT * FROM t " + map[string]string{"inner": "INNER", "left": "LEFT", "right": "RIGHT", "full": "FULL"}[jk] + " JOIN u ON " + ons
			}
			var where cexpr = cexpr{"k": "true"}
			if rng.Intn(3) == 0 {
				w, ws := g.cond(1)
				where = w
				sql += " WHERE " + ws
			}
			x := newRelRun(r, cpu, t, u)
			res, _, e := x.query(sql + ";")
			x.close()
			if e != "" {
				fail("select:join:"+jk, sql, e)
				continue
			}
			rankStringsL(g.lits, t.Rows, u.Rows, res)
			evs = append(evs, relEvent{SQL: sql, Sig: "select:join:" + jk, CPU: cpu, Ev: map[string]interface{}{"kind": "join", "jk": jk, "L": cellsJSON(t.Rows), "R": cellsJSON(u.Rows),
				"cond": on, "where": where, "wl": 4, "wr": 4, "proj": seqInts(1, 8), "ordered": false, "res": cellsJSON(res)}})
		default: // USING / NATURAL
			m := []int{0, 1, 3, 8, 30}[rng.Intn(5)]
			// u has columns (k, a, y): USING (k) or USING (a, k); NATURAL joins on both a and k
			u := genTable(r, "u", []string{"k", "a", "y"}, []colGen{genInt(3), genNum(3), genText}, m)
			jk := []string{"inner", "left", "right", "full"}[rng.Intn(4)]
			jw := map[string]string{"inner": "INNER", "left": "LEFT", "right": "RIGHT", "full": "FULL"}[jk]
			var ul, ur []int
			var sql string
			switch rng.Intn(3) {
			case 0:
				ul, ur = []int{4}, []int{1}
				sql = "SELECT * FROM t " + jw + " JOIN u USING (k)"
			case 1:
				ul, ur = []int{2, 4}, []int{2, 1}
				sql = "SELECT * FROM t " + jw + " JOIN u USING (a, k)"
			default:
				ul, ur = []int{2, 4}, []int{2, 1}
				sql = "SELECT * FROM t NATURAL " + jw + " JOIN u"
				if jk == "inner" {
					sql = "SELECT * FROM t NATURAL JOIN u"
				}
			}
			x := newRelRun(r, cpu, t, u)
			res, _, e := x.query(sql + ";")
			x.close()
			if e != "" {
				fail("select:using:"+jk, sql, e)
				continue
			}
			rankStrings(t.Rows, u.Rows, res)
			evs = append(evs, relEvent{SQL: sql, Sig: fmt.Sprintf("select:using%d:%s", len(ul), jk), CPU: cpu, Ev: map[string]interface{}{"kind": "using", "jk": jk, "L": cellsJSON(t.Rows), "R": cellsJSON(u.Rows),
				"ul": ul, "ur": ur, "wl": 4, "wr": 3, "ordered": false, "res": cellsJSON(res)}})
		}
		if len(evs) > 0 {
			r.Distinct(evs[len(evs)-1].SQL + fmt.Sprint(n))
			if c < 4 {
				r.Sample(map[string]interface{}{"sql": evs[len(evs)-1].SQL, "rows": n, "cpu": cpu})
			}
		}
	}
	// every select list of up to three of the four columns (repeats, any order) over one small table, with and without WHERE:
	// the select list is a projection, whatever the positions of its items
	{
		names := []string{"id", "a", "b", "k"}
		t := genTable(r, "t", names, []colGen{genID, genNum(3), genText, genInt(5)}, 5)
		x := newRelRun(r, 1, t)
		var lists [][]int
		for a := 1; a <= 4; a++ {
			lists = append(lists, []int{a})
			for b := 1; b <= 4; b++ {
				lists = append(lists, []int{a, b})
				for c := 1; c <= 4; c++ {
					lists = append(lists, []int{a, b, c})
				}
			}
		}
		for li, proj := range lists {
			var items []string
			for i, j := range proj {
				items = append(items, fmt.Sprintf("%s AS c%d", names[j-1], i+1))
			}
			sql := "SELECT " + strings.Join(items, ", ") + " FROM t"
			ce := map[string]interface{}{"k": "true"}
			if li%2 == 1 {
				sql += " WHERE id IS NOT NULL"
			}
			res, _, e := x.query(sql + ";")
			if e != "" {
				fail("select:list", sql, e)
				continue
			}
			rankStrings(t.Rows, res)
			evs = append(evs, relEvent{SQL: sql, Sig: "select:list", CPU: 1, Ev: map[string]interface{}{"kind": "filter", "in": cellsJSON(t.Rows), "cond": ce, "proj": proj, "res": cellsJSON(res)}})
			r.Distinct(sql)
		}
		x.close()
		r.Coverage["select_lists_swept"] = len(lists)
	}
	reported := map[string]bool{}
	for _, i := range validateRel(r, evs) {
		e := evs[i]
		if reported[e.Sig] {
			continue
		}
		reported[e.Sig] = true
		r.Violation(e.Sig, fmt.Sprintf("%s (cpu %d): the result differs from the relational definition", e.SQL, e.CPU), map[string]interface{}{"sql": e.SQL, "event": e.Ev})
	}
	r.Coverage["traces_validated_against_impl"] = len(evs)
	r.Coverage["exhaustive"] = false
}
