package props

import (
	"fmt"

	"github.com/mithrandie/csvq/lib/query"

	"verifharness/internal/sut"
)

var errNames = map[int]string{
	query.ErrorFatal:                         "Fatal",
	query.ErrorFieldAmbiguous:                "FieldAmbiguous",
	query.ErrorFieldNotExist:                 "FieldNotExist",
	query.ErrorFieldNotGroupKey:              "FieldNotGroupKey",
	query.ErrorDuplicateFieldName:            "DuplicateFieldName",
	query.ErrorUndeclaredVariable:            "UndeclaredVariable",
	query.ErrorVariableRedeclared:            "VariableRedeclared",
	query.ErrorFunctionNotExist:              "FunctionNotExist",
	query.ErrorFunctionArgumentsLength:       "FunctionArgumentsLength",
	query.ErrorFunctionRedeclared:            "FunctionRedeclared",
	query.ErrorSubqueryTooManyRecords:        "SubqueryTooManyRecords",
	query.ErrorSubqueryTooManyFields:         "SubqueryTooManyFields",
	query.ErrorCursorRedeclared:              "CursorRedeclared",
	query.ErrorUndeclaredCursor:              "UndeclaredCursor",
	query.ErrorCursorClosed:                  "CursorClosed",
	query.ErrorCursorOpen:                    "CursorOpen",
	query.ErrorCursorFetchLength:             "CursorFetchLength",
	query.ErrorInvalidFetchPosition:          "InvalidFetchPosition",
	query.ErrorTemporaryTableRedeclared:      "TemporaryTableRedeclared",
	query.ErrorUndeclaredTemporaryTable:      "UndeclaredTemporaryTable",
	query.ErrorInsertRowValueLength:          "InsertRowValueLength",
	query.ErrorInsertSelectFieldLength:       "InsertSelectFieldLength",
	query.ErrorUpdateFieldNotExist:           "UpdateFieldNotExist",
	query.ErrorUpdateValueAmbiguous:          "UpdateValueAmbiguous",
	query.ErrorReplaceValueLength:            "ReplaceValueLength",
	query.ErrorReplaceKeyNotSet:              "ReplaceKeyNotSet",
	query.ErrorIntegerDevidedByZero:          "IntegerDividedByZero",
	query.ErrorFileLockTimeout:               "LockTimeout",
	query.ErrorFileNotExist:                  "FileNotExist",
	query.ErrorFileAlreadyExist:              "FileAlreadyExist",
	query.ErrorSyntaxError:                   "SyntaxError",
	query.ErrorInvalidLimitPercentage:        "InvalidLimitPercentage",
	query.ErrorInvalidLimitNumber:            "InvalidLimitNumber",
	query.ErrorInvalidOffsetNumber:           "InvalidOffsetNumber",
	query.ErrorTableFieldLength:              "TableFieldLength",
	query.ErrorDataParsing:                   "DataParsing",
	query.ErrorDataEncoding:                  "DataEncoding",
	query.ErrorNotGroupingRecords:            "NotGroupingRecords",
	query.ErrorCombinedSetFieldLength:        "CombinedSetFieldLength",
	query.ErrorStatementNotExist:             "StatementNotExist",
	query.ErrorDuplicateStatementName:        "DuplicateStatementName",
	query.ErrorFieldLengthNotMatch:           "FieldLengthNotMatch",
	query.ErrorTableNotLoaded:                "TableNotLoaded",
	query.ErrorDuplicateTableName:            "DuplicateTableName",
	query.ErrorIO:                            "IO",
	query.ErrorContextCanceled:               "ContextCanceled",
	query.ErrorContextDone:                   "ContextDone",
	query.ErrorNotTable:                      "NotTable",
	query.ErrorCommit:                        "Commit",
	query.ErrorSelectIntoQueryTooManyRecords: "SelectIntoTooManyRecords",
}

// errClass names the error of a result ("" = no error).
func errClass(r sut.Res) string {
	if r.Err == "" {
		return ""
	}
	if r.Fatal {
		return "Fatal"
	}
	if n, ok := errNames[r.Num]; ok {
		return n
	}
	return fmt.Sprintf("E%d", r.Num)
}
