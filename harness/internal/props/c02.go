package props

import (
	"encoding/csv"
	"encoding/json"
	"fmt"
	"os"
	"path/filepath"
	"strconv"
	"strings"
	"time"

	"verifharness/internal/core"
	"verifharness/internal/sut"
)

// C02 - what is written to a table file or result stream reads back as the same table (spec/Formats.tla).
// TLC enumerates small tables over an alphabet of hostile atoms x formats x enclose-all and tells, per case, whether
// the write must be refused or what a fresh read must show.  Every case is written by the real binary three ways
// (--out, stdout, COMMIT of an updated file of that dialect) and read back by a fresh process with the same format
// settings.

func init() {
	Registry["C02"] = &Check{Level: "model_checking", Run: runC02}
}

var atomText = map[string]string{"a": "a", "1": "1", "SP": " ", "COMMA": ",", "QUOTE": "\"", "LF": "\n", "CR": "\r", "TAB": "\t", "COLON": ":", "BSLASH": "\\", "EACUTE": "é"}

type fcell struct {
	N bool     `json:"n"`
	S []string `json:"s"`
}

func (c fcell) text() string {
	var b strings.Builder
	for _, a := range c.S {
		b.WriteString(atomText[a])
	}
	return b.String()
}

func (c fcell) String() string {
	if c.N {
		return "NULL"
	}
	return fmt.Sprintf("%q", c.text())
}

type fcase struct {
	Fmt  string    `json:"fmt"`
	Encl bool      `json:"encl"`
	Rows [][]fcell `json:"rows"`
	Exp  struct {
		K    string    `json:"k"`
		Rows [][]fcell `json:"rows"`
	} `json:"exp"`
}

var fmtExt = map[string]string{"CSV": "csv", "TSV": "tsv", "LTSV": "ltsv", "FIXED": "txt", "JSON": "json", "JSONL": "jsonl"}

type dialect struct {
	lineBreak string // LF CRLF CR
	encoding  string // UTF8 UTF8M UTF16 SJIS
	noHeader  bool
	strip     bool
}

func (d dialect) String() string {
	return fmt.Sprintf("line-break=%s encoding=%s without-header=%v strip=%v", d.lineBreak, d.encoding, d.noHeader, d.strip)
}

func srcJSON(rows [][]fcell) string {
	var objs []string
	for _, r := range rows {
		var fs []string
		for j, c := range r {
			v := "null"
			if !c.N {
				b, _ := json.Marshal(c.text())
				// csvq's JSON reader rejects a string whose last character is an escaped backslash (known
				// finding json-reader:trailing-backslash); the source table spells the backslash as \u005c
				v = strings.ReplaceAll(string(b), "\\\\", "\\u005c")
			}
			fs = append(fs, fmt.Sprintf("\"c%d\":%s", j+1, v))
		}
		objs = append(objs, "{"+strings.Join(fs, ",")+"}")
	}
	return "[" + strings.Join(objs, ",") + "]"
}

func writeArgs(c fcase, d dialect) []string {
	a := []string{"--format", c.Fmt, "--line-break", d.lineBreak, "--write-encoding", d.encoding}
	if c.Encl {
		a = append(a, "--enclose-all")
	}
	if d.noHeader {
		a = append(a, "--without-header")
	}
	if d.strip {
		a = append(a, "--strip-ending-line-break")
	}
	if c.Fmt == "FIXED" {
		a = append(a, "--write-delimiter-positions", fixedPos(c))
	}
	return a
}

func readArgs(c fcase, d dialect) []string {
	a := []string{"--format", "JSON", "--import-format", c.Fmt, "--encoding", d.encoding}
	if d.noHeader && c.Fmt != "JSON" && c.Fmt != "JSONL" && c.Fmt != "LTSV" {
		a = append(a, "--no-header")
	}
	if c.Fmt == "FIXED" {
		a = append(a, "--delimiter-positions", fixedPos(c))
	}
	return a
}

func fixedPos(c fcase) string {
	n := 2
	if len(c.Rows) > 0 {
		n = len(c.Rows[0])
	}
	var p []string
	for i := 1; i <= n; i++ {
		p = append(p, fmt.Sprint(6*i))
	}
	return "[" + strings.Join(p, ", ") + "]"
}

// readBack loads file with a fresh process; returns rows as fcell-like (null/text) or an error text.
func readBack(r *core.Run, dir string, file string, c fcase, d dialect) ([][]sut.Cell, string) {
	rs := sut.RunBin(sut.BinOpts{Csvq: r.Csvq, Dir: dir, Args: append(append([]string{"--repository", dir, "--quiet"}, readArgs(c, d)...), "SELECT * FROM `"+file+"`"), Timeout: 30 * time.Second})
	if rs.IsFatal() {
		return nil, "fatal: " + firstLine(rs.Stderr)
	}
	if rs.Exit != 0 {
		return nil, "unreadable: " + firstLine(rs.Stderr)
	}
	ts, err := sut.ParseJSONTables(rs.Stdout)
	if err != nil {
		return nil, "unparsable output"
	}
	if len(ts) == 0 {
		return [][]sut.Cell{}, ""
	}
	return ts[0].Rows, ""
}

func compareRows(got [][]sut.Cell, want [][]fcell) string {
	if len(got) != len(want) {
		return fmt.Sprintf("%d records read back, %d written", len(got), len(want))
	}
	for i := range want {
		if len(got[i]) != len(want[i]) {
			return fmt.Sprintf("record %d has %d fields, %d written", i+1, len(got[i]), len(want[i]))
		}
		for j := range want[i] {
			w := want[i][j]
			g := got[i][j]
			if w.N != g.Null || (!w.N && w.text() != g.Text) {
				gs := "NULL"
				if !g.Null {
					gs = fmt.Sprintf("%q", g.Text)
				}
				return fmt.Sprintf("cell (%d,%d) reads back as %s, expected %s", i+1, j+1, gs, w.String())
			}
		}
	}
	return ""
}

func hostileKind(c fcase) string {
	kinds := map[string]bool{}
	for _, r := range c.Rows {
		for _, x := range r {
			if x.N {
				kinds["NULL"] = true
			} else if len(x.S) == 0 {
				kinds["EMPTY"] = true
			}
			for _, a := range x.S {
				if a != "a" && a != "1" {
					kinds[a] = true
				}
			}
		}
	}
	var l []string
	for _, k := range []string{"NULL", "EMPTY", "SP", "COMMA", "QUOTE", "LF", "CR", "TAB", "COLON", "BSLASH", "EACUTE"} {
		if kinds[k] {
			l = append(l, k)
		}
	}
	return strings.Join(l, "+")
}

// oneCase runs a case one way; returns a signature ("" = fine) and a description.
func oneCase(r *core.Run, idx int, c fcase, d dialect, way string) (string, string) {
	dir := r.Dir(fmt.Sprintf("f%d%s", idx, way))
	defer os.RemoveAll(dir)
	ext := fmtExt[c.Fmt]
	writeFile(filepath.Join(dir, "src.json"), srcJSON(c.Rows))
	out := "out." + ext
	outp := filepath.Join(dir, out)
	base := []string{"--repository", dir, "--quiet"}
	desc := fmt.Sprintf("%s enclose-all=%v %s via %s, table %v", c.Fmt, c.Encl, d, way, c.Rows)
	sig := fmt.Sprintf("roundtrip:%s:%s:%s", c.Fmt, way, hostileKind(c))
	var rs sut.BinRes
	switch way {
	case "out":
		rs = sut.RunBin(sut.BinOpts{Csvq: r.Csvq, Dir: dir, Args: append(append(append([]string{}, base...), writeArgs(c, d)...), "--out", outp, "SELECT * FROM `src.json`"), Timeout: 30 * time.Second})
	case "stdout":
		rs = sut.RunBin(sut.BinOpts{Csvq: r.Csvq, Dir: dir, Args: append(append(append([]string{}, base...), writeArgs(c, d)...), "SELECT * FROM `src.json`"), Timeout: 30 * time.Second})
		if rs.Exit == 0 {
			writeFile(outp, rs.Stdout)
		}
	case "commit":
		// an existing file of that dialect (plain contents, same shape), then replaced through the transaction
		plain := c
		plain.Rows = nil
		for range c.Rows {
			var row []fcell
			for range c.Rows[0] {
				row = append(row, fcell{S: []string{"a"}})
			}
			plain.Rows = append(plain.Rows, row)
		}
		writeFile(filepath.Join(dir, "plain.json"), srcJSON(plain.Rows))
		r0 := sut.RunBin(sut.BinOpts{Csvq: r.Csvq, Dir: dir, Args: append(append(append([]string{}, base...), writeArgs(c, d)...), "--out", outp, "SELECT * FROM `plain.json`"), Timeout: 30 * time.Second})
		if r0.Exit != 0 {
			return "", "" // the dialect cannot hold even the plain table (e.g. without-header + empty): not a case
		}
		before, _ := os.ReadFile(outp)
		args := append(append([]string{}, base...), "--import-format", c.Fmt, "--encoding", d.encoding)
		if d.noHeader && c.Fmt != "JSON" && c.Fmt != "JSONL" && c.Fmt != "LTSV" {
			args = append(args, "--no-header")
		}
		if c.Fmt == "FIXED" {
			args = append(args, "--delimiter-positions", fixedPos(c))
		}
		// the session's flags for query results must not reach the table file: it is rewritten with its own attributes
		var resultFlags []string
		switch idx % 4 {
		case 1:
			resultFlags = []string{"--without-header", "--enclose-all"}
		case 2:
			resultFlags = []string{"--format", "JSON", "--pretty-print", "--write-encoding", "SJIS"}
		case 3:
			resultFlags = []string{"--write-delimiter", ";", "--line-break", "CRLF", "--json-escape", "HEX", "--format", "TSV"}
		}
		args = append(args, resultFlags...)
		desc += fmt.Sprintf(" (session result flags %v)", resultFlags)
		rs = sut.RunBin(sut.BinOpts{Csvq: r.Csvq, Dir: dir, Args: append(args, "DELETE FROM `"+out+"`; INSERT INTO `"+out+"` SELECT * FROM `src.json`; COMMIT;"), Timeout: 30 * time.Second})
		if rs.Exit != 0 {
			after, _ := os.ReadFile(outp)
			if string(after) != string(before) {
				return sig + ":refused-but-written", desc + ": COMMIT failed (" + firstLine(rs.Stderr) + ") but the file changed"
			}
		} else {
			// the updated file keeps its dialect
			after, _ := os.ReadFile(outp)
			if msg := sameDialect(string(before), string(after), c, d); msg != "" {
				return fmt.Sprintf("dialect:%s:%s", c.Fmt, msg), desc + ": after the committed update " + msg
			}
		}
	}
	if rs.IsFatal() {
		return sig + ":fatal", desc + ": " + firstLine(rs.Stderr)
	}
	if c.Exp.K == "refused" {
		if rs.Exit == 0 {
			return sig + ":not-refused", desc + ": the format cannot spell a cell but the write succeeded"
		}
		if way == "out" {
			if _, err := os.Stat(outp); err == nil {
				if b, _ := os.ReadFile(outp); len(b) > 0 {
					return sig + ":refused-but-written", desc + ": the write was refused but " + out + " holds data"
				}
			}
		}
		return "", ""
	}
	if rs.Exit != 0 {
		if strings.Contains(rs.Stderr, "invalid use of UnreadRune") {
			return "reader:" + c.Fmt + ":CR-line-break-unreadable", desc + ": " + firstLine(rs.Stderr)
		}
		if c.Fmt == "JSONL" && d.lineBreak == "CR" && strings.Contains(rs.Stderr, "unexpected token") {
			return "reader:JSONL:CR-line-break-unreadable", desc + ": " + firstLine(rs.Stderr)
		}
		if strings.Contains(rs.Stderr, "json") && hasAtom(c, "BSLASH") {
			return "reader:JSON:trailing-backslash", desc + ": " + firstLine(rs.Stderr)
		}
		return sig + ":refused", desc + ": refused: " + firstLine(rs.Stderr)
	}
	got, e := readBack(r, dir, out, c, d)
	if e != "" {
		switch {
		case strings.Contains(e, "invalid use of UnreadRune"):
			return "reader:" + c.Fmt + ":CR-line-break-unreadable", desc + ": " + e
		case c.Fmt == "JSONL" && d.lineBreak == "CR" && strings.Contains(e, "unexpected token"):
			return "reader:JSONL:CR-line-break-unreadable", desc + ": " + e
		case strings.Contains(e, "json") && hasAtom(c, "BSLASH"):
			return "reader:JSON:trailing-backslash", desc + ": " + e
		}
		return sig + ":" + strings.SplitN(e, ":", 2)[0], desc + ": " + e
	}
	want := c.Exp.Rows
	if d.noHeader && (c.Fmt == "CSV" || c.Fmt == "TSV" || c.Fmt == "FIXED") {
		// header convention "none": the same records, generated column names
	}
	if msg := compareRows(got, want); msg != "" {
		if c.Fmt == "LTSV" && hasAtom(c, "COLON") {
			return "reader:LTSV:colon-in-value-dropped", desc + ": " + msg
		}
		return sig + ":differs", desc + ": " + msg
	}
	return "", ""
}

// sameDialect: the updated file keeps line break, BOM/encoding and header convention of the file it replaces.
func sameDialect(before, after string, c fcase, d dialect) string {
	lb := func(s string) string {
		switch {
		case strings.Contains(s, "\r\n"):
			return "CRLF"
		case strings.Contains(s, "\r"):
			return "CR"
		case strings.Contains(s, "\n"):
			return "LF"
		}
		return ""
	}
	if c.Fmt != "JSON" {
		b, a := lb(stripCells(before)), lb(stripCells(after))
		if b != "" && a != "" && a != b && len(c.Rows) > 0 && !hasAtom(c, "LF", "CR") {
			return "line-break-changed:" + b + "->" + a
		}
	}
	bom := func(s string) string {
		switch {
		case strings.HasPrefix(s, "\xef\xbb\xbf"):
			return "utf8bom"
		case strings.HasPrefix(s, "\xff\xfe"), strings.HasPrefix(s, "\xfe\xff"):
			return "utf16bom"
		}
		return "none"
	}
	if bom(before) != bom(after) {
		return "encoding-mark-changed:" + bom(before) + "->" + bom(after)
	}
	return ""
}

func stripCells(s string) string { return s }

func hasAtom(c fcase, atoms ...string) bool {
	for _, r := range c.Rows {
		for _, x := range r {
			for _, a := range x.S {
				for _, b := range atoms {
					if a == b {
						return true
					}
				}
			}
		}
	}
	return false
}

func runC02(r *core.Run) {
	r.Assume = []string{
		"byte-level encoders of the go-text dependency are not modelled; encodings and line breaks are configuration axes of the replay",
		"fixed-length runs use explicit delimiter positions (6 bytes per column) and ASCII cells; header names are plain (c1, c2)",
	}
	mc := r.MustHold(core.TLCOpts{Module: "Formats", Cfg: "FormatsMC.cfg", Workers: 4})
	r.Coverage["states"] = mc.Distinct
	r.Coverage["transitions"] = mc.Generated
	var cases []fcase
	seen := map[string]bool{}
	r.RunTLC(core.TLCOpts{Module: "Formats", Cfg: "FormatsGen.cfg", Workers: 1, Timeout: 10 * time.Minute, OnTrace: func(raw json.RawMessage) {
		if seen[string(raw)] {
			return
		}
		seen[string(raw)] = true
		var c fcase
		if err := json.Unmarshal(raw, &c); err != nil {
			core.Fail("bad case: %v", err)
		}
		if c.Fmt == "FIXED" && hasAtom(c, "EACUTE") {
			return // byte positions: ASCII only
		}
		cases = append(cases, c)
	}})
	if len(cases) < 1000 {
		core.Fail("only %d format cases", len(cases))
	}
	type job struct {
		ci  int
		d   dialect
		way string
	}
	var jobs []job
	dialects := []dialect{{"LF", "UTF8", false, false}}
	extra := []dialect{{"CRLF", "UTF8", false, false}, {"LF", "UTF8M", false, false}, {"LF", "UTF16", false, false}, {"CR", "UTF8", false, false},
		{"LF", "UTF8", true, false}, {"LF", "UTF8", false, true}, {"CRLF", "SJIS", false, false}, {"CRLF", "UTF8M", true, true}}
	for i := range cases {
		stride := 4
		if r.Thorough {
			stride = 1
		}
		if (i+int(r.Seed))%stride != 0 {
			continue
		}
		for _, way := range []string{"out", "stdout", "commit"} {
			jobs = append(jobs, job{i, dialects[0], way})
		}
		// other dialects on a rotating subset
		d := extra[i%len(extra)]
		if d.encoding == "SJIS" && hasAtom(cases[i], "EACUTE") {
			d.encoding = "UTF8"
		}
		if cases[i].Fmt == "FIXED" && d.encoding == "UTF16" {
			d.encoding = "UTF8" // delimiter positions are byte positions
		}
		if r.Thorough || i%3 == 0 {
			for _, way := range []string{"out", "commit"} {
				jobs = append(jobs, job{i, d, way})
			}
		}
	}
	type res struct{ sig, what string }
	results := make([]res, len(jobs))
	core.Parallel(len(jobs), 10, func(k int) {
		j := jobs[k]
		s, w := oneCase(r, k, cases[j.ci], j.d, j.way)
		results[k] = res{s, w}
	})
	reported := map[string]bool{}
	for k, x := range results {
		r.Distinct(fmt.Sprintf("%d|%s|%s", jobs[k].ci, jobs[k].d, jobs[k].way))
		if x.sig == "" || reported[x.sig] {
			continue
		}
		// reproduce
		s2, w2 := oneCase(r, 1000000+k, cases[jobs[k].ci], jobs[k].d, jobs[k].way)
		if s2 == "" {
			core.Fail("C02 mismatch %s did not reproduce", x.sig)
		}
		reported[x.sig] = true
		reported[s2] = true
		r.Violation(s2, w2, map[string]interface{}{"case": cases[jobs[k].ci], "dialect": jobs[k].d.String(), "way": jobs[k].way})
	}
	c02Typed(r)
	c02Retry(r)
	c02ReadThenUpdate(r)
	r.Sample(map[string]interface{}{"format": cases[len(cases)/2].Fmt, "table": fmt.Sprint(cases[len(cases)/2].Rows), "expected": cases[len(cases)/2].Exp.K})
	r.Coverage["traces_validated_against_impl"] = len(jobs)
	r.Coverage["format_cases"] = len(cases)
	r.Coverage["exhaustive"] = r.Thorough
}

// c02Retry: the two-write history of Formats.tla - a write that is refused (nothing is written) followed by a write that is
// not - in ONE session, the way the interactive shell and library users meet it: a table of several output buffers gets a
// cell its format cannot spell near its end, COMMIT is refused, the session goes on, most records (the offending one
// among them) are deleted, COMMIT again.  The file must be byte-identical after the refusal, and a fresh read after the
// second COMMIT must show exactly the records that are left.
func c02Retry(r *core.Run) {
	type variant struct {
		name, file, head string
		row              func(i int) string
		prep, bad        string
	}
	hangul := "\ud55c"
	vs := []variant{
		{"LTSV:tab", "t.ltsv", "", func(i int) string { return fmt.Sprintf("id:%d\tc2:v%05d\n", i, i) }, "", "'a\\tb'"},
		{"CSV:SJIS", "t.csv", "id,c2\n", func(i int) string { return fmt.Sprintf("%d,v%05d\n", i, i) }, "ALTER TABLE `t.csv` SET ENCODING TO SJIS;", "'" + hangul + "'"},
		{"TSV:SJIS", "t.tsv", "id\tc2\n", func(i int) string { return fmt.Sprintf("%d\tv%05d\n", i, i) }, "ALTER TABLE `t.tsv` SET ENCODING TO SJIS;", "'" + hangul + "'"},
		{"LTSV:SJIS", "t.ltsv", "", func(i int) string { return fmt.Sprintf("id:%d\tc2:v%05d\n", i, i) }, "ALTER TABLE `t.ltsv` SET ENCODING TO SJIS;", "'" + hangul + "'"},
	}
	for vi, v := range vs {
		n := 900 + r.Rand.Intn(400)
		keep := 1 + r.Rand.Intn(6)
		var b strings.Builder
		b.WriteString(v.head)
		for i := 1; i <= n; i++ {
			b.WriteString(v.row(i))
		}
		dir := r.Dir(fmt.Sprintf("retry%d", vi))
		writeFile(filepath.Join(dir, v.file), b.String())
		sig := "retry:" + v.name
		desc := fmt.Sprintf("%s of %d records: UPDATE record %d to %s, COMMIT, DELETE id > %d, COMMIT", v.file, n, n-1, v.bad, keep)
		report := func(kind, what string) {
			r.Violation(sig+":"+kind, desc+": "+what, map[string]interface{}{"variant": v.name, "records": n, "keep": keep})
		}
		func() {
			defer os.RemoveAll(dir)
			p, err := sut.NewProc(dir, nil)
			if err != nil {
				core.Fail("proc: %v", err)
			}
			t := "`" + v.file + "`"
			if v.prep != "" {
				if rs := p.Exec(v.prep); rs.Err != "" {
					p.End()
					core.Fail("retry %s: %s: %s", v.name, v.prep, rs.Err)
				}
			}
			if rs := p.Exec(fmt.Sprintf("UPDATE %s SET c2 = %s WHERE id = %d;", t, v.bad, n-1)); rs.Err != "" {
				p.End()
				core.Fail("retry %s: update: %s", v.name, rs.Err)
			}
			rs := p.Exec("COMMIT;")
			now, _ := os.ReadFile(filepath.Join(dir, v.file))
			if rs.Err == "" {
				p.End()
				report("not-refused", "the first COMMIT succeeded although the format cannot spell the cell")
				return
			}
			if rs.Fatal {
				p.End()
				report("fatal", "the first COMMIT failed internally: "+rs.Err)
				return
			}
			if string(now) != b.String() {
				p.End()
				report("refused-but-written", fmt.Sprintf("the first COMMIT was refused (%s) but the file changed (%d -> %d bytes)", firstLine(rs.Err), b.Len(), len(now)))
				return
			}
			if rs := p.Exec(fmt.Sprintf("DELETE FROM %s WHERE id > %d;", t, keep)); rs.Err != "" {
				p.End()
				report("session-broken", "DELETE after the refused COMMIT fails: "+firstLine(rs.Err))
				return
			}
			rs = p.Exec("COMMIT;")
			p.End()
			if rs.Err != "" {
				report("second-commit", "the second COMMIT fails: "+firstLine(rs.Err))
				return
			}
			q, err := sut.NewProc(dir, nil)
			if err != nil {
				core.Fail("proc: %v", err)
			}
			defer q.End()
			rr := q.Exec("SELECT id, c2 FROM " + t + ";")
			if rr.Err != "" {
				report("unreadable", "the table does not load after the second COMMIT: "+firstLine(rr.Err))
				return
			}
			ts, err := sut.ParseJSONTables(rr.Out)
			if err != nil || len(ts) != 1 {
				core.Fail("retry %s: cannot parse %q", v.name, rr.Out)
			}
			ok := len(ts[0].Rows) == keep
			for i := 0; ok && i < keep; i++ {
				ok = len(ts[0].Rows[i]) == 2 && ts[0].Rows[i][0].String() == fmt.Sprint(i+1) && ts[0].Rows[i][1].String() == fmt.Sprintf("v%05d", i+1)
			}
			if !ok {
				st, _ := os.Stat(filepath.Join(dir, v.file))
				report("differs", fmt.Sprintf("a fresh read shows %d records instead of the %d that were left (file: %d bytes)", len(ts[0].Rows), keep, st.Size()))
			}
			r.Count("refused_then_written_histories", 1)
		}()
	}
}

// c02ReadThenUpdate: the history  read - update - write  in one session, for every format: a table the session has read
// first is loaded again when it is updated; what COMMIT writes then reads back, in a fresh session with the same settings,
// as the updated table - same header, same number of fields, every other cell as it was.
func c02ReadThenUpdate(r *core.Run) {
	type variant struct{ name, file, content, pre string }
	vs := []variant{
		{"CSV", "t.csv", "id,item,qty\n1,apple,10\n2,kiwi,200\n3,fig,3\n", ""},
		{"TSV", "t.tsv", "id\titem\tqty\n1\tapple\t10\n2\tkiwi\t200\n3\tfig\t3\n", ""},
		{"LTSV", "t.ltsv", "id:1\titem:apple\tqty:10\nid:2\titem:kiwi\tqty:200\nid:3\titem:fig\tqty:3\n", ""},
		{"FIXED:spaces", "t.txt", "id item  qty\n1  apple 10 \n2  kiwi  200\n3  fig   3  \n", "SET @@IMPORT_FORMAT TO FIXED;"},
		{"FIXED:positions", "t.txt", "id item  qty\n1  apple 10 \n2  kiwi  200\n3  fig   3  \n", "SET @@IMPORT_FORMAT TO FIXED; SET @@DELIMITER_POSITIONS TO '[3, 9, 12]';"},
		{"JSON", "t.json", "[{\"id\":1,\"item\":\"apple\",\"qty\":10},{\"id\":2,\"item\":\"kiwi\",\"qty\":200},{\"id\":3,\"item\":\"fig\",\"qty\":3}]\n", ""},
		{"JSONL", "t.jsonl", "{\"id\":1,\"item\":\"apple\",\"qty\":10}\n{\"id\":2,\"item\":\"kiwi\",\"qty\":200}\n{\"id\":3,\"item\":\"fig\",\"qty\":3}\n", ""},
	}
	want := "1|apple|10;2|pear|200;3|fig|3"
	for vi, v := range vs {
		for _, first := range []string{"", "SELECT * FROM %s;", "SELECT COUNT(*) FROM %s; SELECT item FROM %s WHERE id = 2;"} {
			dir := r.Dir(fmt.Sprintf("rtu%d", vi))
			writeFile(filepath.Join(dir, v.file), v.content)
			t := "`" + v.file + "`"
			read := func() (string, string) {
				q, err := sut.NewProc(dir, nil)
				if err != nil {
					core.Fail("proc: %v", err)
				}
				defer q.End()
				if v.pre != "" {
					q.Exec(v.pre)
				}
				rr := q.Exec("SELECT id, item, qty FROM " + t + ";")
				if rr.Err != "" {
					return "", firstLine(rr.Err)
				}
				ts, err := sut.ParseJSONTables(rr.Out)
				if err != nil || len(ts) != 1 {
					return "", "unparsable result"
				}
				var rows []string
				for _, row := range ts[0].Rows {
					var cs []string
					for _, c := range row {
						cs = append(cs, c.String())
					}
					rows = append(rows, strings.Join(cs, "|"))
				}
				return strings.Join(rows, ";"), ""
			}
			p, err := sut.NewProc(dir, nil)
			if err != nil {
				core.Fail("proc: %v", err)
			}
			prog := v.pre + " " + strings.ReplaceAll(first, "%s", t) + " UPDATE " + t + " SET item = 'pear' WHERE id = 2; COMMIT;"
			rs := p.Exec(prog)
			p.End()
			got, e := read()
			_ = os.RemoveAll(dir)
			sig := "read-update-write:" + v.name
			switch {
			case rs.Err != "":
				r.Violation(sig+":error", prog+" fails: "+firstLine(rs.Err), map[string]interface{}{"program": prog})
			case e != "":
				r.Violation(sig+":unreadable", prog+": the committed table does not load: "+e, map[string]interface{}{"program": prog})
			case got != want:
				r.Violation(sig+":differs", fmt.Sprintf("%s: a fresh read shows %q, expected %q", prog, got, want), map[string]interface{}{"program": prog})
			}
			r.Count("read_update_write_histories", 1)
		}
	}
}

// c02Typed: cells are not always texts - a query result holds integers, floats, booleans and datetimes.  Each typed
// value is written in every format (--out) and read back; the text read back must be the text csvq itself shows
// for the value (its CSV spelling): the format-independent normal form of Formats.tla with the value's canonical
// text as the cell.
func c02Typed(r *core.Run) {
	values := []string{"1", "-7", "0", "9007199254740993", "-9007199254740993", "9223372036854775807", "-9223372036854775807", "1000000000000000001",
		"2.5", "-0.125", "0.1", "1e20", "123456789.125", "TRUE", "FALSE", "DATETIME('2012-02-03 04:05:06')", "'text'", "NULL", "1 + 1", "10 / 4", "7 % 3"}
	formats := []struct{ name, ext string }{{"CSV", "csv"}, {"TSV", "tsv"}, {"LTSV", "ltsv"}, {"FIXED", "txt"}, {"JSON", "json"}, {"JSONL", "jsonl"}}
	type job struct {
		v string
		f int
	}
	var jobs []job
	for _, v := range values {
		for f := range formats {
			jobs = append(jobs, job{v, f})
		}
	}
	type res struct{ sig, what string }
	results := make([]res, len(jobs))
	core.Parallel(len(jobs), 8, func(k int) {
		j := jobs[k]
		dir := r.Dir(fmt.Sprintf("typed%d", k))
		defer os.RemoveAll(dir)
		f := formats[j.f]
		sel := "SELECT " + j.v + " AS c1, 'x' AS c2"
		ref := sut.RunBin(sut.BinOpts{Csvq: r.Csvq, Dir: dir, Args: []string{"--format", "CSV", "--without-header", "--quiet", sel}, Timeout: 30 * time.Second})
		if ref.Exit != 0 {
			results[k] = res{"typed:reference-error", sel + ": " + firstLine(ref.Stderr)}
			return
		}
		want := strings.TrimRight(ref.Stdout, "\r\n")
		file := "o." + f.ext
		w := sut.RunBin(sut.BinOpts{Csvq: r.Csvq, Dir: dir, Args: []string{"--format", f.name, "--out", file, "--quiet", sel}, Timeout: 30 * time.Second})
		if w.Exit != 0 {
			results[k] = res{"typed:" + f.name + ":write-error", fmt.Sprintf("%s to %s fails: %s", sel, f.name, firstLine(w.Stderr))}
			return
		}
		from := "`" + file + "`"
		if f.name == "FIXED" {
			from = "FIXED('SPACES', `" + file + "`)"
		}
		rd := sut.RunBin(sut.BinOpts{Csvq: r.Csvq, Dir: dir, Args: []string{"--format", "CSV", "--without-header", "--quiet", "SELECT c1, c2 FROM " + from}, Timeout: 30 * time.Second})
		got := strings.TrimRight(rd.Stdout, "\r\n")
		if rd.Exit != 0 {
			results[k] = res{"typed:" + f.name + ":unreadable", fmt.Sprintf("%s written as %s cannot be read back: %s", sel, f.name, firstLine(rd.Stderr))}
			return
		}
		if got != want {
			kind := "value"
			if _, err := strconv.ParseInt(strings.Split(want, ",")[0], 10, 64); err == nil {
				kind = "integer"
				if len(strings.TrimLeft(strings.Split(want, ",")[0], "-")) >= 16 {
					kind = "integer-above-2^53"
				}
			}
			if f.name == "LTSV" && strings.Contains(want, ":") && strings.ReplaceAll(want, ":", "") == got {
				// the LTSV reader of the dependency drops colons inside values: the finding already listed for text cells
				results[k] = res{"reader:LTSV:colon-in-value-dropped", fmt.Sprintf("%s written as LTSV reads back as %q", sel, got)}
				return
			}
			results[k] = res{"typed:" + f.name + ":" + kind + "-changed", fmt.Sprintf("%s written as %s reads back as %q, csvq shows the value as %q", sel, f.name, got, want)}
		}
	})
	reported := map[string]bool{}
	for k, x := range results {
		r.Distinct(fmt.Sprintf("typed|%s|%d", jobs[k].v, jobs[k].f))
		if x.sig == "" || reported[x.sig] {
			continue
		}
		reported[x.sig] = true
		r.Violation(x.sig, x.what, map[string]interface{}{"value": jobs[k].v, "format": formats[jobs[k].f].name})
	}
	r.Coverage["typed_value_round_trips"] = len(jobs)

	// tables longer than the blocks the loaders collect records in (300) and than the worker ranges: every record
	// comes back, in order, in every format
	for _, n := range []int{299, 300, 301, 450, 1000} {
		for _, f := range formats {
			dir := r.Dir(fmt.Sprintf("big%d%s", n, f.ext))
			var b strings.Builder
			b.WriteString("c1,c2\n")
			for i := 1; i <= n; i++ {
				fmt.Fprintf(&b, "%d,v%d\n", i, (i*7)%1000)
			}
			writeFile(filepath.Join(dir, "src.csv"), b.String())
			file := "o." + f.ext
			w := sut.RunBin(sut.BinOpts{Csvq: r.Csvq, Dir: dir, Args: []string{"--format", f.name, "--out", file, "--quiet", "SELECT c1, c2 FROM src"}, Timeout: 60 * time.Second})
			from := "`" + file + "`"
			if f.name == "FIXED" {
				from = "FIXED('SPACES', `" + file + "`)"
			}
			rd := sut.RunBin(sut.BinOpts{Csvq: r.Csvq, Dir: dir, Args: []string{"--format", "CSV", "--quiet", "SELECT c1, c2 FROM " + from}, Timeout: 60 * time.Second})
			// and through a commit: one cell of the written file is updated, everything else stays
			up := sut.RunBin(sut.BinOpts{Csvq: r.Csvq, Dir: dir, Args: []string{"--quiet", "UPDATE " + from + " SET c2 = 'vX' WHERE c1 = 2"}, Timeout: 60 * time.Second})
			rd2 := sut.RunBin(sut.BinOpts{Csvq: r.Csvq, Dir: dir, Args: []string{"--format", "CSV", "--quiet", "SELECT c1, c2 FROM " + from}, Timeout: 60 * time.Second})
			_ = os.RemoveAll(dir)
			want := b.String()
			want2 := strings.Replace(want, "\n2,v14\n", "\n2,vX\n", 1)
			sig, what := "", ""
			switch {
			case w.Exit != 0 || rd.Exit != 0 || up.Exit != 0 || rd2.Exit != 0:
				sig, what = "big:"+f.name+":error", fmt.Sprintf("%d records as %s: write exit %d, read exit %d, update exit %d: %s%s%s", n, f.name, w.Exit, rd.Exit, up.Exit, firstLine(w.Stderr), firstLine(rd.Stderr), firstLine(up.Stderr))
			case rd.Stdout != want:
				sig, what = "big:"+f.name+":records-differ", fmt.Sprintf("a table of %d records written as %s does not read back as itself (first difference at byte %d)", n, f.name, firstDiff(rd.Stdout, want))
			case rd2.Stdout != want2:
				sig, what = "big:"+f.name+":records-differ-after-update", fmt.Sprintf("a %s file of %d records after UPDATE of one cell: other records changed (first difference at byte %d)", f.name, n, firstDiff(rd2.Stdout, want2))
			}
			cnt0 := r.Coverage["big_table_round_trips"]
			if cnt0 == nil {
				cnt0 = 0
			}
			r.Coverage["big_table_round_trips"] = cnt0.(int) + 1
			if sig != "" && !reported[sig] {
				reported[sig] = true
				r.Violation(sig, what, map[string]interface{}{"records": n, "format": f.name})
			}
		}
	}

	// column names are cells of the header record: a name the format can spell reads back as the same name
	names := []string{"a b", "a,b", "a\"b", " a", "a ", "1", "\u00e9", "a\tb", "select", "a.b", "x:y", "a`b", "-", "a\\b"}
	hreported := map[string]bool{}
	cnt := 0
	for _, f := range []struct{ name, ext string }{{"CSV", "csv"}, {"TSV", "tsv"}} {
		for _, nm := range names {
			if f.name == "TSV" && strings.Contains(nm, "\t") {
				continue
			}
			cnt++
			dir := r.Dir(fmt.Sprintf("hdr%d", cnt))
			file := "h." + f.ext
			q := "`" + strings.ReplaceAll(strings.ReplaceAll(nm, "\\", "\\\\"), "`", "``") + "`"
			w := sut.RunBin(sut.BinOpts{Csvq: r.Csvq, Dir: dir, Args: []string{"--format", f.name, "--out", file, "--quiet", "SELECT 1 AS " + q + ", 2 AS other"}, Timeout: 30 * time.Second})
			if w.Exit != 0 {
				_ = os.RemoveAll(dir)
				continue // a name csvq refuses to write is not a round-trip case
			}
			// read back and shown as CSV (JSON output would interpret the names as paths), header parsed by encoding/csv
			rd := sut.RunBin(sut.BinOpts{Csvq: r.Csvq, Dir: dir, Args: []string{"--format", "CSV", "--quiet", "SELECT * FROM `" + file + "`"}, Timeout: 30 * time.Second})
			got := ""
			if recs, err := csv.NewReader(strings.NewReader(rd.Stdout)).ReadAll(); err == nil && len(recs) >= 1 && len(recs[0]) == 2 {
				got = recs[0][0]
			}
			_ = os.RemoveAll(dir)
			if rd.Exit != 0 || got != nm {
				sig := "header:" + f.name + ":name-changed"
				if !hreported[sig] {
					hreported[sig] = true
					r.Violation(sig, fmt.Sprintf("column name %q written as %s reads back as %q (exit %d %s)", nm, f.name, got, rd.Exit, firstLine(rd.Stderr)), map[string]interface{}{"name": nm, "format": f.name})
				}
			}
		}
	}
	r.Coverage["header_name_round_trips"] = cnt
}

func firstDiff(a, b string) int {
	for i := 0; i < len(a) && i < len(b); i++ {
		if a[i] != b[i] {
			return i
		}
	}
	if len(a) < len(b) {
		return len(a)
	}
	return len(b)
}
