package props

import (
	"bufio"
	"encoding/json"
	"fmt"
	"os"
	"path/filepath"
	"sort"
	"strings"
	"time"

	"verifharness/internal/core"
	"verifharness/internal/sched"
	"verifharness/internal/sut"
)

// ---------------------------------------------------------------------------
// C10 - a crash at any instant of COMMIT leaves each existing table complete: old or new
// C11 - no surviving run leaves lock/temp/half-created files; reads modify nothing
//
// Both use the real binary (built with -tags verif). The hook points the binary passes are
// recorded with VERIF_TRACE; every recorded point becomes a crash point (VERIF_CRASH_AT,
// SIGKILL of self) for C10 and a signal point (VERIF_SIGNAL_AT) for C11.  The recorded
// events of every run, with the crash / end line, are validated by TLC against
// FileProtocolTrace (Crash action, all invariants) and FileProtocolObs.
// ---------------------------------------------------------------------------

func init() {
	Registry["C10"] = &Check{Level: "fault_enumeration", Run: runC10}
	Registry["C11"] = &Check{Level: "fault_enumeration", Run: runC11}
}

type binScenario struct {
	Name     string
	Tables   map[string]string // file name -> initial content
	SQL      string
	Prog     []sched.Op // the same program in the vocabulary of FileProtocol (for trace validation); nil = not modelled
	Args     []string   // extra args
	ReadOnly bool
	Holder   bool     // a competing process holds the lock of f1 (-> lock timeout path)
	Out      string   // --out file name
	Linked   []string // tables that are symbolic links to files kept in a directory next to the repository
	Preload  string   // contents of $HOME/.csvqrc (statements run before the command line is applied; cwd = parent of repo)
}

type pointRec struct {
	Pid   int    `json:"pid"`
	Seq   int    `json:"seq"`
	Point string `json:"point"`
	Base  string `json:"base"`
	ID    string `json:"id"`
}

func rowsCSV(n int, v int) string {
	var b strings.Builder
	b.WriteString("n\n")
	for i := 0; i < n; i++ {
		fmt.Fprintf(&b, "%d\n", v)
	}
	return b.String()
}

func writeTables(dir string, tables map[string]string) {
	for n, c := range tables {
		if err := os.WriteFile(filepath.Join(dir, n), []byte(c), 0644); err != nil {
			core.Fail("write table: %v", err)
		}
	}
}

func readPoints(path string) []pointRec {
	f, err := os.Open(path)
	if err != nil {
		return nil
	}
	defer f.Close()
	var l []pointRec
	sc := bufio.NewScanner(f)
	sc.Buffer(make([]byte, 1<<20), 1<<20)
	for sc.Scan() {
		var p pointRec
		if json.Unmarshal(sc.Bytes(), &p) == nil && p.Point != "" {
			l = append(l, p)
		}
	}
	return l
}

// runScenario runs the binary once in a fresh directory. env: extra environment.
func runScenario(r *core.Run, sc binScenario, env []string, keep bool) (dir string, res sut.BinRes, points []pointRec) {
	dir = r.Dir("bin." + sc.Name)
	repo := filepath.Join(dir, "repo")
	_ = os.MkdirAll(repo, 0755)
	writeTables(repo, sc.Tables)
	for _, n := range sc.Linked {
		_ = os.MkdirAll(filepath.Join(dir, "store"), 0755)
		if err := os.Rename(filepath.Join(repo, n), filepath.Join(dir, "store", n)); err != nil {
			core.Fail("link table: %v", err)
		}
		if err := os.Symlink(filepath.Join("..", "store", n), filepath.Join(repo, n)); err != nil {
			core.Fail("link table: %v", err)
		}
	}
	tracef := filepath.Join(dir, "trace.ndjson")
	if sc.Preload != "" {
		_ = os.WriteFile(filepath.Join(dir, ".csvqrc"), []byte(sc.Preload), 0644)
	}
	sqlf := filepath.Join(dir, "prog.sql")
	_ = os.WriteFile(sqlf, []byte(sc.SQL), 0644)
	args := []string{"--repository", repo, "--format", "JSON", "--wait-timeout", "0.3", "--quiet"}
	if sc.Out != "" {
		args = append(args, "--out", filepath.Join(repo, sc.Out))
	}
	args = append(args, sc.Args...)
	args = append(args, "--source", sqlf)
	res = sut.RunBin(sut.BinOpts{Csvq: r.Csvq, Dir: dir, Args: args, Env: append([]string{"VERIF_TRACE=" + tracef}, env...), Timeout: 60 * time.Second})
	points = readPoints(tracef)
	if !keep {
		defer os.RemoveAll(dir)
	}
	return
}

var modelPoints = map[string]bool{
	"cf.close_fd": true, "cf.remove": true, "wait.retry": true,
	"rlock.stat_lock": true, "rlock.create_lock": true, "rlock.create_rlock": true,
	"lock.check": true, "lock.create_lock": true, "lock.recheck_rlock": true, "temp.create": true,
	"read.stat": true, "read.open": true, "create.stat": true, "create.create_file": true,
	"update.stat": true, "update.open": true,
	"close.data_fd": true, "close.remove_created": true, "close.done": true,
	"commit.data_fd": true, "commit.temp_fd": true, "commit.rename": true,
	"commit.swapped": true, "commit.done": true,
	"cwe.data_fd": true, "cwe.remove_created": true, "cwe.done": true,
	"load.done": true, "stmt.begin": true,
}

// binTrace converts the points a binary run recorded into a FileProtocolTrace trace for process p1.
// The source file and csvq's own configuration files also pass through lib/file (nolock.* points and
// read points for files that are not tables); only points of the scenario's tables are kept.
func binTrace(sc binScenario, points []pointRec, last string, dirNow map[string]sched.DirF) []string {
	tables := map[string]string{}
	for n := range sc.Tables {
		tables[n] = strings.TrimSuffix(n, ".csv")
	}
	for _, o := range sc.Prog {
		if o.F != "-" {
			tables[o.F+".csv"] = o.F
		}
	}
	var lines []string
	in := fpInit{A: "init", Progs: map[string][]sched.Op{"p1": sc.Prog, "p2": {}, "p3": {}}, Exists: map[string]bool{"f1": false, "f2": false}}
	for n := range sc.Tables {
		in.Exists[strings.TrimSuffix(n, ".csv")] = true
	}
	lines = append(lines, core.JSON(in))
	first := true
	for _, p := range points {
		if !modelPoints[p.Point] {
			continue
		}
		f := "-"
		cf := ""
		if p.Point != "stmt.begin" {
			t, ok := tables[p.Base]
			if !ok {
				continue
			}
			f = t
		}
		if first {
			// the initial pc of the model is the first stmt.begin: not a step
			first = false
			if p.Point == "stmt.begin" {
				continue
			}
		}
		_ = cf
		lines = append(lines, core.JSON(map[string]interface{}{"p": "p1", "a": "step", "pt": p.Point, "f": f, "cf": cfOf(p)}))
	}
	if last != "" {
		lines = append(lines, core.JSON(map[string]interface{}{"p": "p1", "a": last, "dir": dirNow}))
	}
	return lines
}

// the trace file of the binary does not carry the control-file kind; VerifPoint logs the base of the
// table only. cf.* points are disambiguated by TLC (the model knows which control file is closed).
func cfOf(p pointRec) string { return "?" }

// versions[table file name] = contents after 0, 1, 2 ... commits; the ver of the projection is the index.
func dirProjection(repo string, files []string, versions map[string][]string) map[string]sched.DirF {
	return dirProjection2(sut.Snapshot(repo), files, versions)
}

func dirProjectionOld(repo string, files []string) map[string]sched.DirF {
	m := map[string]sched.DirF{}
	ents, _ := os.ReadDir(repo)
	for _, f := range files {
		d := sched.DirF{Ver: -1}
		for _, e := range ents {
			n := e.Name()
			switch {
			case n == f+".csv":
				d.Exists = true
				d.Ver = -2
				if b, err := os.ReadFile(filepath.Join(repo, n)); err == nil {
					d.Ver = versionOf(string(b))
				}
			case n == "."+f+".csv.lock":
				d.Lock = true
			case n == "."+f+".csv.temp":
				d.Temp = true
			case strings.HasPrefix(n, "."+f+".csv.") && strings.HasSuffix(n, ".rlock"):
				d.NRLock++
			}
		}
		m[f] = d
	}
	return m
}

// versionOf: tables of the binary scenarios hold the same number n in every row of column n;
// -3 = empty/header only with nothing, -2 = mixed or unparsable (torn).
func versionOf(content string) int {
	if content == "" {
		return -3
	}
	lines := strings.Split(strings.TrimRight(content, "\n"), "\n")
	if len(lines) == 1 {
		return 0
	}
	v := -2
	for i, l := range lines[1:] {
		l = strings.Trim(l, "\"\r ")
		if j := strings.IndexByte(l, ','); j >= 0 {
			l = strings.Trim(l[:j], "\"")
		}
		var x int
		if _, err := fmt.Sscanf(l, "%d", &x); err != nil {
			return -2
		}
		if i == 0 {
			v = x
		} else if x != v {
			return -2
		}
	}
	return v
}

func crashScenarios(thorough bool) []binScenario {
	big := 300
	if thorough {
		big = 5000
	}
	l := []binScenario{
		{Name: "upd1", Tables: map[string]string{"f1.csv": rowsCSV(3, 0)}, SQL: "UPDATE `f1.csv` SET n = n + 1;\nCOMMIT;\n",
			Prog: []sched.Op{{Op: "update", F: "f1"}, {Op: "commit", F: "-"}}},
		{Name: "upd1big", Tables: map[string]string{"f1.csv": rowsCSV(big, 0)}, SQL: "UPDATE `f1.csv` SET n = n + 1;\nCOMMIT;\n",
			Prog: []sched.Op{{Op: "update", F: "f1"}, {Op: "commit", F: "-"}}},
		{Name: "upd2", Tables: map[string]string{"f1.csv": rowsCSV(3, 0), "f2.csv": rowsCSV(40, 0)},
			SQL:  "UPDATE `f1.csv` SET n = n + 1;\nUPDATE `f2.csv` SET n = n + 1;\nCOMMIT;\n",
			Prog: []sched.Op{{Op: "update", F: "f1"}, {Op: "update", F: "f2"}, {Op: "commit", F: "-"}}},
		{Name: "updcreate", Tables: map[string]string{"f1.csv": rowsCSV(3, 0)},
			SQL:  "UPDATE `f1.csv` SET n = n + 1;\nCREATE TABLE `f2.csv` (n);\nCOMMIT;\n",
			Prog: []sched.Op{{Op: "update", F: "f1"}, {Op: "create", F: "f2"}, {Op: "commit", F: "-"}}},
		{Name: "twocommits", Tables: map[string]string{"f1.csv": rowsCSV(3, 0)},
			SQL:  "UPDATE `f1.csv` SET n = n + 1;\nCOMMIT;\nUPDATE `f1.csv` SET n = n + 1;\nCOMMIT;\n",
			Prog: []sched.Op{{Op: "update", F: "f1"}, {Op: "commit", F: "-"}, {Op: "update", F: "f1"}, {Op: "commit", F: "-"}}},
		{Name: "shrinkhead", Tables: map[string]string{"f1.csv": "id,v\n1,aaaaaaaa\n2,bb\n3,cccccccccccc\n4,d\n5,eeeeee\n6,ffff\n"},
			SQL:  "DELETE FROM `f1.csv` WHERE id <= 3;\nCOMMIT;\n",
			Prog: []sched.Op{{Op: "update", F: "f1"}, {Op: "commit", F: "-"}}},
		{Name: "shorter", Tables: map[string]string{"f1.csv": "id,v\n1,aaaaaaaaaaaaaaaa\n2,bbbbbbbbbbbbbbbbbbbb\n3,cccccccccccc\n", "f2.csv": "id,v\n1,x\n"},
			SQL:  "UPDATE `f1.csv` SET v = 'q' WHERE id <> 2;\nINSERT INTO `f2.csv` VALUES (2, 'a much longer value than before'), (3, 'and another one');\nCOMMIT;\n",
			Prog: []sched.Op{{Op: "update", F: "f1"}, {Op: "update", F: "f2"}, {Op: "commit", F: "-"}}},
		{Name: "dropcol", Tables: map[string]string{"f1.csv": "id,v,w\n1,aaaa,x\n2,bb,yyyyyy\n3,c,zz\n"},
			SQL:  "ALTER TABLE `f1.csv` DROP (v);\nCOMMIT;\nDELETE FROM `f1.csv` WHERE id = 1;\nCOMMIT;\n",
			Prog: []sched.Op{{Op: "update", F: "f1"}, {Op: "commit", F: "-"}, {Op: "update", F: "f1"}, {Op: "commit", F: "-"}}},
		{Name: "empty", Tables: map[string]string{"f1.csv": "n\n"}, SQL: "INSERT INTO `f1.csv` VALUES (1);\nCOMMIT;\n",
			Prog: []sched.Op{{Op: "update", F: "f1"}, {Op: "commit", F: "-"}}},
		// the table's path is a symbolic link: the path must hold the old or the new contents at every instant all the same
		{Name: "symlink", Tables: map[string]string{"f1.csv": rowsCSV(600, 1234567)}, Linked: []string{"f1.csv"},
			SQL: "UPDATE `f1.csv` SET n = n + 1;\nCOMMIT;\n"},
		// a table file of 0 bytes that receives more than one output buffer of rows (from a 700-row table)
		{Name: "zerobytes", Tables: map[string]string{"f1.csv": "", "f2.csv": rowsCSV(700, 1234567)},
			SQL: "ALTER TABLE `f1.csv` ADD (n);\nINSERT INTO `f1.csv` SELECT n FROM `f2.csv`;\nCOMMIT;\n"},
	}
	return l
}

func removeControlFiles(repo string) {
	for _, n := range sut.ControlFiles(repo) {
		_ = os.Remove(filepath.Join(repo, n))
	}
}

func runC10(r *core.Run) {
	r.Assume = []string{
		"a crash is modelled by SIGKILL of the process at a named hook point: descriptors and flocks vanish, files stay; torn writes inside one write(2) and loss of unsynced data at power failure are outside the model",
		"the hook points enumerate the gaps between the file-system calls of Transaction.Commit and Handler.commit",
	}
	mc := r.MustHold(core.TLCOpts{Module: "FileProtocolMC", Cfg: "FileProtocolMC_crash.cfg", Workers: 8, Timeout: 20 * time.Minute})
	r.Coverage["states"] = mc.Distinct
	r.Coverage["transitions"] = mc.Generated
	var traceLines []string
	ntr := 0
	total := 0
	for _, sc := range crashScenarios(r.Thorough) {
		// reference run (no crash): the new contents and the list of points
		dir, res, points := runScenario(r, sc, nil, true)
		if res.Exit != 0 || res.IsFatal() {
			core.Fail("reference run of scenario %s failed: exit=%d %s", sc.Name, res.Exit, res.Stderr)
		}
		newC := sut.Snapshot(filepath.Join(dir, "repo"))
		_ = os.RemoveAll(dir)
		for n, c := range sc.Tables {
			if newC[n] == c && sc.Prog != nil {
				core.Fail("scenario %s does not change %s", sc.Name, n)
			}
		}
		// contents after each intermediate COMMIT are committed states too: versions[n][k] = after k commits
		parts := strings.SplitAfter(sc.SQL, "COMMIT;\n")
		ncommit := len(parts) - 1
		versions := map[string][]string{}
		for n, c := range newC {
			if strings.HasSuffix(n, ".csv") {
				versions[n] = []string{sc.Tables[n]}
				_ = c
			}
		}
		for k := 1; k <= ncommit; k++ {
			snap := newC
			if k < ncommit {
				pre := sc
				pre.Name = sc.Name + ".pre"
				pre.SQL = strings.Join(parts[:k], "")
				d2, rs2, _ := runScenario(r, pre, nil, true)
				if rs2.Exit != 0 {
					core.Fail("prefix run failed: %s", rs2.Stderr)
				}
				snap = sut.Snapshot(filepath.Join(d2, "repo"))
				_ = os.RemoveAll(d2)
			}
			for n := range versions {
				c, ok := snap[n]
				if !ok {
					c = versions[n][len(versions[n])-1]
				}
				if _, existed := sc.Tables[n]; !existed && len(versions[n]) == 1 && ok {
					// a created table: version 0 is its first committed contents
					versions[n][0] = c
					continue
				}
				if c != versions[n][len(versions[n])-1] {
					versions[n] = append(versions[n], c)
				}
			}
		}
		allowed := map[string]map[string]bool{}
		for n := range sc.Tables {
			allowed[n] = map[string]bool{}
			for _, c := range versions[n] {
				allowed[n][c] = true
			}
		}
		files := []string{"f1", "f2"}
		// crash points: everything from the first statement on (thinned inside the encode loop)
		var ids []string
		seenEnc := 0
		for _, p := range points {
			if p.Point == "signal.seen" || strings.HasPrefix(p.Point, "nolock.") {
				continue
			}
			if p.Point == "encode.row" {
				seenEnc++
				if !(seenEnc <= 3 || seenEnc%97 == 0) {
					continue
				}
			}
			ids = append(ids, p.ID)
		}
		if sc.Prog != nil { // scenarios outside the vocabulary of FileProtocol are judged by the oracle only
			ref := binTrace(sc, points, "", nil)
			traceLines = append(traceLines, ref...)
			traceLines = append(traceLines, core.JSON(map[string]interface{}{"a": "end", "dir": dirProjection2(newC, files, versions)}))
			ntr++
		}
		type outc struct {
			id   string
			what string
			sig  string
			tr   []string
		}
		results := make([]outc, len(ids))
		core.Parallel(len(ids), 8, func(i int) {
			id := ids[i]
			sub := sc
			sub.Name = fmt.Sprintf("%s.%d", sc.Name, i)
			d, rs, pts := runScenario(r, sub, []string{"VERIF_CRASH_AT=" + id}, true)
			defer os.RemoveAll(d)
			repo := filepath.Join(d, "repo")
			o := outc{id: id}
			if !rs.Signaled {
				o.what = fmt.Sprintf("crash point %s was not reached (exit %d): %s", id, rs.Exit, rs.Stderr)
				o.sig = "INFRA"
				results[i] = o
				return
			}
			now := sut.Snapshot(repo)
			for n := range sc.Tables {
				c, ok := now[n]
				pt := id[:strings.Index(id, "@")]
				switch {
				case !ok:
					o.what = fmt.Sprintf("after a crash at %s table %s does not exist", id, n)
					o.sig = "crash:table-missing@" + pt
				case !allowed[n][c]:
					o.what = fmt.Sprintf("after a crash at %s table %s holds neither its old nor its new contents (%d bytes)", id, n, len(c))
					o.sig = "crash:table-torn@" + pt
				}
			}
			o.tr = binTrace(sc, pts, "crash", dirProjection(repo, files, versions))
			if o.sig == "" {
				// recovery as the manual instructs: delete the hidden files, then read and update again
				removeControlFiles(repo)
				var q []string
				for n := range sc.Tables {
					q = append(q, "SELECT COUNT(*) FROM `"+n+"`;", "INSERT INTO `"+n+"` SELECT * FROM `"+n+"` LIMIT 1;")
				}
				sort.Strings(q)
				rr := sut.RunBin(sut.BinOpts{Csvq: r.Csvq, Dir: d, Args: []string{"--repository", repo, "--wait-timeout", "0.3", "--quiet", strings.Join(q, " ") + " COMMIT;"}, Timeout: 30 * time.Second})
				if rr.Exit != 0 || rr.IsFatal() {
					o.what = fmt.Sprintf("after a crash at %s and deletion of the control files the tables are not usable: exit %d %s", id, rr.Exit, rr.Stderr)
					o.sig = "crash:not-recoverable@" + id[:strings.Index(id, "@")]
				} else if l := sut.ControlFiles(repo); len(l) > 0 {
					o.what = fmt.Sprintf("recovery run after crash at %s left %v", id, l)
					o.sig = "crash:recovery-leftover"
				}
			}
			results[i] = o
		})
		for _, o := range results {
			total++
			r.Distinct(sc.Name + "|" + o.id)
			if o.sig == "INFRA" {
				core.Fail("%s", o.what)
			}
			if o.sig != "" {
				r.Violation(o.sig, o.what, map[string]interface{}{"scenario": sc.Name, "sql": sc.SQL, "crash_at": o.id})
			}
			if sc.Prog != nil {
				traceLines = append(traceLines, o.tr...)
				ntr++
			}
		}
		r.Sample(map[string]interface{}{"scenario": sc.Name, "sql": sc.SQL, "crash_points": len(ids), "first_points": ids[:minInt(8, len(ids))]})
	}
	// ---- the process ended by a signal while committing: tables of every format ------------------------------------
	// (a signal is not a crash - csvq gets to run its clean-up - but whatever ends the process, every table is complete:
	// its previous contents or its new ones)
	{
		mk := func(row func(i int) string, head, tail string, n int) string {
			var b strings.Builder
			b.WriteString(head)
			for i := 0; i < n; i++ {
				b.WriteString(row(i))
			}
			b.WriteString(tail)
			return b.String()
		}
		type fsc struct{ file, content string }
		fscs := []fsc{
			{"t.jsonl", mk(func(i int) string { return fmt.Sprintf("{\"id\":%d,\"n\":0}\n", i) }, "", "", 40)},
			{"t.ltsv", mk(func(i int) string { return fmt.Sprintf("id:%d\tn:0\n", i) }, "", "", 40)},
			{"t.tsv", mk(func(i int) string { return fmt.Sprintf("%d\t0\n", i) }, "id\tn\n", "", 40)},
			{"t.csv", mk(func(i int) string { return fmt.Sprintf("%d,0\n", i) }, "id,n\n", "", 40)},
			{"t.json", "[" + strings.TrimSuffix(mk(func(i int) string { return fmt.Sprintf("{\"id\":%d,\"n\":0},", i) }, "", "", 40), ",") + "]\n"},
		}
		for _, f := range fscs {
			sc := binScenario{Name: "sig." + f.file, Tables: map[string]string{f.file: f.content}, SQL: "UPDATE `" + f.file + "` SET n = n + 1;\nCOMMIT;\n"}
			dir, res, points := runScenario(r, sc, nil, true)
			if res.Exit != 0 || res.IsFatal() {
				core.Fail("reference run of scenario %s failed: exit=%d %s", sc.Name, res.Exit, res.Stderr)
			}
			newC := sut.Snapshot(filepath.Join(dir, "repo"))[f.file]
			_ = os.RemoveAll(dir)
			var ids []string
			started := false
			for _, p := range points {
				if p.Point == "tx.commit.begin" {
					started = true
				}
				if started && p.Point != "signal.seen" {
					ids = append(ids, p.ID)
				}
			}
			whats := make([]string, len(ids))
			core.Parallel(len(ids), 8, func(i int) {
				sub := sc
				sub.Name = fmt.Sprintf("%s.%d", sc.Name, i)
				sig := []string{"TERM", "INT", "QUIT"}[i%3]
				d, rs, _ := runScenario(r, sub, []string{"VERIF_SIGNAL_AT=" + ids[i] + ":" + sig}, true)
				defer os.RemoveAll(d)
				now, ok := sut.Snapshot(filepath.Join(d, "repo"))[f.file]
				switch {
				case rs.IsFatal():
					whats[i] = "internal failure: " + firstLine(rs.Stderr)
				case !ok:
					whats[i] = "the table does not exist any more"
				case now != f.content && now != newC:
					whats[i] = fmt.Sprintf("the table holds neither its old nor its new contents (%d bytes; old %d, new %d; exit %d)", len(now), len(f.content), len(newC), rs.Exit)
				}
				if whats[i] != "" {
					whats[i] = fmt.Sprintf("%s ended by SIG%s at %s: %s", sc.SQL, sig, ids[i], whats[i])
				}
			})
			for i, w := range whats {
				total++
				r.Distinct(sc.Name + "|" + ids[i])
				if w != "" {
					r.Violation("signal:table-torn:"+strings.TrimPrefix(filepath.Ext(f.file), "."), w, map[string]interface{}{"scenario": sc.Name, "sql": sc.SQL, "signal_at": ids[i]})
					break
				}
			}
			r.Count("signal_during_commit_runs", len(ids))
		}
	}
	// ---- generated scenarios (thorough): several tables in several formats, statement mixes, commits anywhere ----
	if r.Thorough {
		nsc := 500
		for k := 0; k < nsc; k++ {
			sc := randomCrashScenario(r, k)
			n, sig, what, at := crashRandom(r, sc)
			total += n
			r.Count("generated_scenarios", 1)
			r.Count("generated_crash_points", n)
			if sig == "INFRA" {
				core.Fail("%s", what)
			}
			if sig != "" {
				r.Violation(sig, what, map[string]interface{}{"scenario": sc.Name, "tables": sc.Tables, "sql": sc.SQL, "crash_at": at})
			}
			if k < 2 {
				r.Sample(map[string]interface{}{"scenario": sc.Name, "tables": sc.Tables, "sql": sc.SQL, "crash_points": n})
			}
		}
	}

	// every crashed execution must be a behaviour of FileProtocol ending in Crash(p1), with Durable & co. holding
	res := r.RunTLC(core.TLCOpts{Module: "FileProtocolTrace", Cfg: "FileProtocolTrace.cfg", Workers: 1,
		Texts: map[string]string{"trace.ndjson": strings.Join(traceLines, "\n") + "\n"}, Timeout: 10 * time.Minute, KeepOut: true})
	r.Coverage["traces_validated_against_impl"] = ntr
	r.Coverage["trace_lines"] = len(traceLines)
	if !res.OK {
		if res.Violated != "" && res.Violated != "TraceAccepted" {
			// an invariant (Durable, CrashLeavesOldOrNew ...) fails on a recorded crashed execution
			r.Violation("crash:model-invariant:"+res.Violated, "invariant "+res.Violated+" of FileProtocol fails on a recorded crashed execution", map[string]interface{}{"line": res.Depth})
		} else {
			r.Coverage["model_drift"] = fmt.Sprintf("strict trace validation stopped at line %d of %d", res.Depth-1, len(traceLines))
			fmt.Printf("NOTE property=C10 model drift: strict trace validation stopped at line %d of %d: %s\n", res.Depth-1, len(traceLines), safeLine(traceLines, res.Depth-1))
		}
	}
	r.Coverage["evaluations"] = total
	r.Coverage["distinct_nontrivial"] = r.DistinctCount()
	r.Coverage["rule"] = "one execution of the real binary per (scenario, hook point id point@table#occurrence) recorded by an uncrashed reference run, from the first statement to process exit (encode.row thinned to 3 + every 97th); the process SIGKILLs itself at the point; non-trivial = distinct (scenario, point id)"
	r.Coverage["exhaustive"] = !r.Thorough // thorough adds generated scenarios (a sample); the hook points of every scenario are enumerated completely
}

func safeLine(l []string, i int) string {
	if i >= 0 && i < len(l) {
		return l[i]
	}
	return ""
}

func minInt(a, b int) int {
	if a < b {
		return a
	}
	return b
}

func verIn(versions []string, c string) int {
	if versions == nil {
		return versionOf(c)
	}
	for k := len(versions) - 1; k >= 0; k-- {
		if versions[k] == c {
			return k
		}
	}
	if c == "" {
		return -3
	}
	return -2
}

func dirProjection2(snap map[string]string, files []string, versions map[string][]string) map[string]sched.DirF {
	m := map[string]sched.DirF{}
	for _, f := range files {
		d := sched.DirF{Ver: -1}
		for n, c := range snap {
			switch {
			case n == f+".csv":
				d.Exists = true
				if versions != nil {
					d.Ver = verIn(versions[n], c)
				} else {
					d.Ver = versionOf(c)
				}
			case n == "."+f+".csv.lock":
				d.Lock = true
			case n == "."+f+".csv.temp":
				d.Temp = true
			case strings.HasPrefix(n, "."+f+".csv.") && strings.HasSuffix(n, ".rlock"):
				d.NRLock++
			}
		}
		m[f] = d
	}
	return m
}

// ---------------------------------------------------------------------------
// generated crash scenarios
// ---------------------------------------------------------------------------

// tableText renders rows (first row = header) in the format the extension selects.
func tableText(ext string, rows [][]string) string {
	var b strings.Builder
	switch ext {
	case "csv", "tsv":
		d := ","
		if ext == "tsv" {
			d = "\t"
		}
		for _, r := range rows {
			b.WriteString(strings.Join(r, d))
			b.WriteByte('\n')
		}
	case "ltsv":
		for _, r := range rows[1:] {
			for j, c := range r {
				if j > 0 {
					b.WriteByte('\t')
				}
				b.WriteString(rows[0][j] + ":" + c)
			}
			b.WriteByte('\n')
		}
	case "json", "jsonl":
		if ext == "json" {
			b.WriteString("[")
		}
		for i, r := range rows[1:] {
			if i > 0 && ext == "json" {
				b.WriteString(",")
			}
			b.WriteString("{")
			for j, c := range r {
				if j > 0 {
					b.WriteString(",")
				}
				fmt.Fprintf(&b, "%q:%q", rows[0][j], c)
			}
			b.WriteString("}")
			if ext == "jsonl" {
				b.WriteByte('\n')
			}
		}
		if ext == "json" {
			b.WriteString("]\n")
		}
	}
	return b.String()
}

func randomCrashScenario(r *core.Run, k int) binScenario {
	rng := r.Rand
	exts := []string{"csv", "csv", "tsv", "json", "jsonl", "ltsv"}
	nt := 1 + rng.Intn(3)
	sc := binScenario{Name: fmt.Sprintf("gen%d", k), Tables: map[string]string{}}
	var names []string
	nrows := map[string]int{}
	for i := 1; i <= nt; i++ {
		ext := exts[rng.Intn(len(exts))]
		n := fmt.Sprintf("g%d.%s", i, ext)
		rows := [][]string{{"id", "v", "w"}}
		nr := []int{1, 2, 3, 5, 9, 40, 200}[rng.Intn(7)]
		for x := 1; x <= nr; x++ {
			rows = append(rows, []string{fmt.Sprint(x), strings.Repeat(string(rune('a'+rng.Intn(26))), 1+rng.Intn(12)), fmt.Sprint(rng.Intn(1000))})
		}
		sc.Tables[n] = tableText(ext, rows)
		names = append(names, n)
		nrows[n] = nr
	}
	var sql strings.Builder
	nst := 2 + rng.Intn(6)
	created := false
	sinceCommit := 0
	for i := 0; i < nst; i++ {
		t := names[rng.Intn(len(names))]
		switch rng.Intn(9) {
		case 0, 1:
			fmt.Fprintf(&sql, "UPDATE `%s` SET v = '%s' WHERE id %% %d = 0;\n", t, strings.Repeat("z", 1+rng.Intn(20)), 1+rng.Intn(3))
		case 2:
			fmt.Fprintf(&sql, "UPDATE `%s` SET w = w + 1;\n", t)
		case 3:
			fmt.Fprintf(&sql, "DELETE FROM `%s` WHERE id > %d;\n", t, 1+rng.Intn(nrows[t]))
		case 4, 5:
			fmt.Fprintf(&sql, "INSERT INTO `%s` VALUES (%d, '%s', %d);\n", t, 1000+i, strings.Repeat("q", 1+rng.Intn(30)), rng.Intn(9))
		case 6:
			if strings.HasSuffix(t, ".csv") || strings.HasSuffix(t, ".tsv") {
				fmt.Fprintf(&sql, "ALTER TABLE `%s` SET LINE_BREAK TO CRLF;\n", t)
			} else {
				fmt.Fprintf(&sql, "UPDATE `%s` SET v = v || 'x';\n", t)
			}
		case 7:
			if !created {
				created = true
				sql.WriteString("CREATE TABLE `made.csv` (a, b);\nINSERT INTO `made.csv` VALUES (1, 'x'), (2, 'y');\n")
			} else {
				sql.WriteString("INSERT INTO `made.csv` VALUES (3, 'z');\n")
			}
		case 8:
			if sinceCommit > 0 {
				if rng.Intn(3) == 0 {
					sql.WriteString("ROLLBACK;\n")
					created = false
					sql.WriteString("SELECT 1;\n")
				} else {
					sql.WriteString("COMMIT;\n")
				}
				sinceCommit = -1
			}
		}
		sinceCommit++
	}
	if rng.Intn(3) > 0 {
		sql.WriteString("COMMIT;\n") // otherwise the procedure ends normally: auto-commit
	}
	sc.SQL = sql.String()
	return sc
}

// crashRandom: reference run and runs of the prefixes up to each COMMIT give the committed versions of every
// table; then one run per hook point with the process killing itself there.  Returns the number of crash
// points and the first violation (sig, what, point id).
func crashRandom(r *core.Run, sc binScenario) (int, string, string, string) {
	dir, res, points := runScenario(r, sc, nil, true)
	_ = os.RemoveAll(dir)
	if res.Exit != 0 || res.IsFatal() {
		return 0, "INFRA", fmt.Sprintf("reference run of generated scenario failed: exit=%d %s\n%s", res.Exit, res.Stderr, sc.SQL), ""
	}
	allowed := map[string]map[string]bool{}
	for n, c := range sc.Tables {
		allowed[n] = map[string]bool{c: true}
	}
	// committed states: after every prefix that ends with COMMIT, and after the whole procedure
	parts := strings.SplitAfter(sc.SQL, "COMMIT;\n")
	for k := 1; k <= len(parts); k++ {
		pre := sc
		pre.Name = sc.Name + ".pre"
		pre.SQL = strings.Join(parts[:k], "")
		if k < len(parts) || !strings.HasSuffix(sc.SQL, "COMMIT;\n") {
			// fine: a prefix ending in COMMIT, or the whole text (auto-commit at the end)
		}
		if pre.SQL == "" {
			continue
		}
		d2, rs2, _ := runScenario(r, pre, nil, true)
		if rs2.Exit != 0 {
			_ = os.RemoveAll(d2)
			return 0, "INFRA", "prefix run failed: " + rs2.Stderr, ""
		}
		snap := sut.Snapshot(filepath.Join(d2, "repo"))
		_ = os.RemoveAll(d2)
		for n := range sc.Tables {
			if c, ok := snap[n]; ok {
				allowed[n][c] = true
			}
		}
	}
	var ids []string
	seenEnc := 0
	started := false
	for _, p := range points {
		if p.Point == "stmt.begin" {
			started = true
		}
		if !started || p.Point == "signal.seen" || strings.HasPrefix(p.Point, "nolock.") {
			continue
		}
		if p.Point == "encode.row" {
			seenEnc++
			if !(seenEnc <= 2 || seenEnc%61 == 0) {
				continue
			}
		}
		ids = append(ids, p.ID)
	}
	type outc struct{ sig, what, id string }
	results := make([]outc, len(ids))
	core.Parallel(len(ids), 8, func(i int) {
		id := ids[i]
		sub := sc
		sub.Name = fmt.Sprintf("%s.%d", sc.Name, i)
		d, rs, _ := runScenario(r, sub, []string{"VERIF_CRASH_AT=" + id}, true)
		defer os.RemoveAll(d)
		repo := filepath.Join(d, "repo")
		if !rs.Signaled {
			results[i] = outc{"INFRA", fmt.Sprintf("crash point %s was not reached (exit %d): %s", id, rs.Exit, rs.Stderr), id}
			return
		}
		pt := id[:strings.Index(id, "@")]
		results[i].id = id
		now := sut.Snapshot(repo)
		for n := range sc.Tables {
			c, ok := now[n]
			switch {
			case !ok:
				results[i] = outc{"crash:table-missing@" + pt, fmt.Sprintf("after a crash at %s table %s does not exist", id, n), id}
				return
			case !allowed[n][c]:
				results[i] = outc{"crash:table-torn@" + pt, fmt.Sprintf("after a crash at %s table %s holds none of its committed contents (%d bytes)", id, n, len(c)), id}
				return
			}
		}
		removeControlFiles(repo)
		var q []string
		for n := range sc.Tables {
			q = append(q, "SELECT COUNT(*) FROM `"+n+"`;", "INSERT INTO `"+n+"` SELECT * FROM `"+n+"` LIMIT 1;")
		}
		sort.Strings(q)
		rr := sut.RunBin(sut.BinOpts{Csvq: r.Csvq, Dir: d, Args: []string{"--repository", repo, "--wait-timeout", "0.3", "--quiet", strings.Join(q, " ") + " COMMIT;"}, Timeout: 30 * time.Second})
		if rr.Exit != 0 || rr.IsFatal() {
			results[i] = outc{"crash:not-recoverable@" + pt, fmt.Sprintf("after a crash at %s and deletion of the control files the tables are not usable: exit %d %s", id, rr.Exit, rr.Stderr), id}
		} else if l := sut.ControlFiles(repo); len(l) > 0 {
			results[i] = outc{"crash:recovery-leftover", fmt.Sprintf("recovery run after crash at %s left %v", id, l), id}
		}
	})
	for _, o := range results {
		r.Distinct(sc.Name + "|" + o.id)
		if o.sig != "" {
			return len(ids), o.sig, o.what + "\n" + sc.SQL, o.id
		}
	}
	return len(ids), "", "", ""
}
