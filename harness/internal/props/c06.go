package props

import (
	"encoding/json"
	"fmt"
	"math"
	"math/big"
	"strconv"
	"strings"
	"time"

	"verifharness/internal/core"
	"verifharness/internal/sut"
)

// C06 - comparison, ternary logic, arithmetic and casting follow the documented rules (spec/Values.tla)
//
//  1. TLC checks the consistency laws of the property for every pair of the value catalog.
//  2. TLC emits the complete operator table of the catalog (every pair; BETWEEN/IN for sampled triples);
//     every entry is evaluated on the real csvq through parser and evaluator and compared.
//  3. Operands outside the catalog: the vectors of operator results are validated by TLC against the laws.

func init() {
	Registry["C06"] = &Check{Level: "model_checking", Run: runC06}
}

type valRes struct {
	K string `json:"k"`
	V int    `json:"v"`
}

type valRow struct {
	A      string   `json:"a"`
	B      string   `json:"b"`
	Cmp    []string `json:"cmp"`
	Logic  []string `json:"logic"`
	Is     []string `json:"is"`
	CaseEq string   `json:"caseeq"`
	Arith  []valRes `json:"arith"`
	Tri    map[string]struct {
		C       string `json:"c"`
		Between string `json:"between"`
		In2     string `json:"in2"`
	} `json:"tri"`
}

func ternOf(c sut.Cell) string {
	switch {
	case c.Null:
		return "U"
	case c.Text == "true":
		return "T"
	case c.Text == "false":
		return "F"
	}
	return "?" + c.Text
}

func evalRow(p *sut.Proc, sql string) ([]sut.Cell, string) {
	r := p.Exec(sql)
	if r.Err != "" {
		return nil, errClass(r)
	}
	ts, err := sut.ParseJSONTables(r.Out)
	if err != nil || len(ts) != 1 || len(ts[0].Rows) != 1 {
		return nil, "unparsable:" + r.Out
	}
	return ts[0].Rows[0], ""
}

var arithOps = []string{"+", "-", "*", "/", "%"}

func checkValRow(p *sut.Proc, row valRow) (sig string, what string) {
	a, b := row.A, row.B
	sql := fmt.Sprintf("SELECT (%[1]s = %[2]s) AS c1, (%[1]s <> %[2]s) AS c2, (%[1]s < %[2]s) AS c3, (%[1]s <= %[2]s) AS c4, (%[1]s > %[2]s) AS c5, (%[1]s >= %[2]s) AS c6, "+
		"(%[1]s AND %[2]s) AS l1, (%[1]s OR %[2]s) AS l2, (NOT %[1]s) AS l3, "+
		"(%[1]s IS NULL) AS i1, (%[1]s IS TRUE) AS i2, (%[1]s IS FALSE) AS i3, (%[1]s IS UNKNOWN) AS i4, "+
		"CASE %[1]s WHEN %[2]s THEN TRUE ELSE FALSE END AS k1;", a, b)
	cells, e := evalRow(p, sql)
	if e != "" {
		return "values:eval-error:" + e, fmt.Sprintf("%s fails: %s", sql, e)
	}
	names := []string{"=", "<>", "<", "<=", ">", ">=", "AND", "OR", "NOT", "IS NULL", "IS TRUE", "IS FALSE", "IS UNKNOWN", "CASE-WHEN"}
	exp := append(append(append([]string{}, row.Cmp...), row.Logic...), row.Is...)
	exp = append(exp, row.CaseEq)
	for i := range exp {
		if got := ternOf(cells[i]); got != exp[i] {
			return "values:" + names[i], fmt.Sprintf("%s %s %s: csvq %s, documented rules %s", a, names[i], b, got, exp[i])
		}
	}
	for i, op := range arithOps {
		want := row.Arith[i]
		sql := fmt.Sprintf("SELECT (%[1]s %[3]s %[2]s) AS r, ((%[1]s %[3]s %[2]s) == INTEGER(%[1]s %[3]s %[2]s)) AS isint, ((%[1]s %[3]s %[2]s) IS NULL) AS isnull;", a, b, op)
		cells, e := evalRow(p, sql)
		desc := fmt.Sprintf("%s %s %s", a, op, b)
		if want.K == "err" {
			if e != "IntegerDividedByZero" {
				return "values:arith" + op + ":no-error", fmt.Sprintf("%s: expected integer-divided-by-zero error, csvq %v %s", desc, cells, e)
			}
			continue
		}
		if e != "" {
			return "values:arith" + op + ":error", fmt.Sprintf("%s fails: %s", desc, e)
		}
		if len(cells) != 3 {
			return "values:arith-output", fmt.Sprintf("%s: unexpected output %v", sql, cells)
		}
		isnull := ternOf(cells[2]) == "T" // NaN and Inf print as null in JSON: ask csvq itself
		isint := ternOf(cells[1]) == "T"
		switch want.K {
		case "null":
			if !isnull {
				return "values:arith" + op + ":not-null", fmt.Sprintf("%s = %s, expected NULL", desc, cells[0])
			}
		case "int":
			if isnull || !isint {
				return "values:arith" + op + ":not-integer", fmt.Sprintf("%s = %s (integer: %v), expected the integer %d", desc, cells[0], isint, want.V)
			}
			if cells[0].Text != strconv.Itoa(want.V) {
				return "values:arith" + op + ":int-value", fmt.Sprintf("%s = %s, expected %d", desc, cells[0], want.V)
			}
		case "flt", "fltv":
			if isnull || isint {
				return "values:arith" + op + ":not-float", fmt.Sprintf("%s = %s (integer: %v), expected a float", desc, cells[0], isint)
			}
			if want.K == "fltv" {
				f, err := strconv.ParseFloat(cells[0].Text, 64)
				if err != nil || math.Abs(f-float64(want.V)) > 1e-9 {
					return "values:arith" + op + ":float-value", fmt.Sprintf("%s = %s, expected %d (float and integer arithmetic agree on integral operands)", desc, cells[0], want.V)
				}
			}
		}
	}
	if len(row.Tri) > 0 {
		var parts []string
		var exp []string
		var desc []string
		k := 0
		for _, t := range row.Tri {
			k++
			parts = append(parts, fmt.Sprintf("(%s BETWEEN %s AND %s) AS b%d, (%s IN (%s, %s)) AS n%d", a, b, t.C, k, a, b, t.C, k))
			exp = append(exp, t.Between, t.In2)
			desc = append(desc, fmt.Sprintf("%s BETWEEN %s AND %s", a, b, t.C), fmt.Sprintf("%s IN (%s, %s)", a, b, t.C))
		}
		cells, e := evalRow(p, "SELECT "+strings.Join(parts, ", ")+";")
		if e != "" {
			return "values:tri-eval-error:" + e, fmt.Sprintf("BETWEEN/IN on %s, %s fails: %s", a, b, e)
		}
		if len(cells) != len(exp) {
			return "values:tri-output", fmt.Sprintf("unexpected output of SELECT %s: %v", strings.Join(parts, ", "), cells)
		}
		for i := range exp {
			if got := ternOf(cells[i]); got != exp[i] {
				kind := "BETWEEN"
				if i%2 == 1 {
					kind = "IN"
				}
				return "values:" + kind, fmt.Sprintf("%s: csvq %s, documented expansion %s", desc[i], got, exp[i])
			}
		}
	}
	return "", ""
}

func runC06(r *core.Run) {
	r.Assume = []string{
		"numeric accuracy and int64 overflow are not claimed (TLC has 32-bit integers and no floats): typing, NULL-ness, sign and agreement laws only",
		"catalog of 63 values; operands outside it are only checked against the consistency laws",
	}
	mc := r.MustHold(core.TLCOpts{Module: "ValuesMC", Cfg: "ValuesMC.cfg", Workers: 4, Timeout: 10 * time.Minute})
	r.Coverage["states"] = mc.Distinct
	r.Coverage["transitions"] = mc.Generated
	var rows []valRow
	r.RunTLC(core.TLCOpts{Module: "ValuesMC", Cfg: "ValuesGen.cfg", Workers: 1, Timeout: 10 * time.Minute,
		OnTrace: func(raw json.RawMessage) {
			var row valRow
			if err := json.Unmarshal(raw, &row); err != nil {
				core.Fail("bad row: %v", err)
			}
			rows = append(rows, row)
		}})
	if len(rows) < 1000 {
		core.Fail("generator produced only %d rows", len(rows))
	}
	type rowRes struct{ sig, what string }
	results := make([]rowRes, len(rows))
	nw := 8
	chunks := (len(rows) + nw - 1) / nw
	core.Parallel(nw, nw, func(w int) {
		dir := r.Dir(fmt.Sprintf("v%d", w))
		p, err := sut.NewProc(dir, nil)
		if err != nil {
			core.Fail("proc: %v", err)
		}
		defer p.End()
		// two declared datetime notations (the catalog has texts in them): shorter than 8 characters, and month name first
		if rs := p.Exec("SET @@DATETIME_FORMAT TO '[\"%e.%c.%y\", \"%b %e %Y\"]';"); rs.Err != "" {
			core.Fail("datetime format: %s", rs.Err)
		}
		for i := w * chunks; i < (w+1)*chunks && i < len(rows); i++ {
			s, wh := checkValRow(p, rows[i])
			results[i] = rowRes{s, wh}
		}
	})
	reported := map[string]bool{}
	for i, x := range results {
		r.Distinct(rows[i].A + "|" + rows[i].B)
		if x.sig == "" || reported[x.sig] {
			continue
		}
		reported[x.sig] = true
		r.Violation(x.sig, x.what, map[string]interface{}{"a": rows[i].A, "b": rows[i].B})
	}
	r.Sample(rows[len(rows)/3])
	r.Coverage["operator_table_rows"] = len(rows)
	r.Coverage["exhaustive"] = true

	// ---- nested expressions: trees built and evaluated by the specification (Expr.tla) ----
	mx := r.MustHold(core.TLCOpts{Module: "Expr", Cfg: "ExprMC.cfg", Workers: 4, Timeout: 10 * time.Minute})
	r.Coverage["states"] = mc.Distinct + mx.Distinct
	r.Coverage["transitions"] = mc.Generated + mx.Generated
	nex := 400
	if r.Thorough {
		nex = 8000
	}
	checkExprValues(r, exprCases(r, nex, r.Seed*31))

	// ---- operands outside the catalog: law-only validation by TLC ----
	n := 1500
	if r.Thorough {
		n = 20000
	}
	dir := r.Dir("vb")
	p, err := sut.NewProc(dir, nil)
	if err != nil {
		core.Fail("proc: %v", err)
	}
	defer p.End()
	var lines []string
	var lits []string
	for i := 0; i < n; i++ {
		a, b := randOperand(r), randOperand(r)
		sql := fmt.Sprintf("SELECT (%[1]s = %[2]s) AS c1, (%[1]s <> %[2]s) AS c2, (%[1]s < %[2]s) AS c3, (%[1]s <= %[2]s) AS c4, (%[1]s > %[2]s) AS c5, (%[1]s >= %[2]s) AS c6, (%[2]s = %[1]s) AS d1, (%[2]s <> %[1]s) AS d2, (%[2]s < %[1]s) AS d3, (%[2]s <= %[1]s) AS d4, (%[2]s > %[1]s) AS d5, (%[2]s >= %[1]s) AS d6;", a, b)
		cells, e := evalRow(p, sql)
		if e != "" || len(cells) != 12 {
			r.Violation("values:random-eval-error:"+e, sql+" fails: "+e, map[string]interface{}{"a": a, "b": b})
			continue
		}
		var ab, ba []string
		for k := 0; k < 6; k++ {
			ab = append(ab, ternOf(cells[k]))
			ba = append(ba, ternOf(cells[6+k]))
		}
		lines = append(lines, core.JSON(map[string]interface{}{"kind": "cmp", "ab": ab, "ba": ba}))
		lits = append(lits, a+" ? "+b)
	}
	for i := 0; i < n/3; i++ {
		x, y := r.Rand.Int63n(2000001)-1000000, r.Rand.Int63n(2001)-1000
		if r.Rand.Intn(4) == 0 {
			x = r.Rand.Int63n(1<<40) - (1 << 39)
		}
		op := []string{"+", "-", "*", "%"}[r.Rand.Intn(4)]
		if op == "%" && y == 0 {
			y = 7
		}
		sql := fmt.Sprintf("SELECT (%d %s %d) AS ri, (%d.0 %s %d.0) AS rf;", x, op, y, x, op, y)
		cells, e := evalRow(p, sql)
		if e != "" || len(cells) != 2 {
			r.Violation("values:random-eval-error:"+e, sql+" fails: "+e, nil)
			continue
		}
		lines = append(lines, core.JSON(map[string]interface{}{"kind": "agree", "ri": cells[0].Text, "rf": normZero(strings.TrimSuffix(cells[1].Text, ".0"))}))
		lits = append(lits, fmt.Sprintf("%d %s %d (integer vs float)", x, op, y))
	}
	// integers near the int64 bounds, 2^53 and 10^18 as offsets from a base (ValuesTrace: wincmp / win); results are
	// read through STRING(): csvq's JSON output rounds integers above 2^53 (dependency, see known findings of C02)
	bases := []*big.Int{}
	for _, t := range []string{"9223372036854773807", "-9223372036854773808", "9007199254740992", "-9007199254740992", "1000000000000000000", "-1000000000000000000", "1000000000000000"} {
		b, _ := new(big.Int).SetString(t, 10)
		bases = append(bases, b)
	}
	spell := func(v *big.Int) string {
		t := v.String()
		switch r.Rand.Intn(7) {
		case 0, 1:
			return t // numeric literal
		case 2:
			return "'" + t + "'"
		case 3:
			return "' " + t + "  '"
		case 4:
			if v.Sign() > 0 {
				return "'+" + t + "'"
			}
			return "'" + t + "'"
		case 5:
			if v.Sign() > 0 {
				return "'000" + t + "'"
			}
			return "'-000" + t[1:] + "'"
		}
		return "'" + t + "'"
	}
	off := func(v *big.Int, base *big.Int) int64 {
		d := new(big.Int).Sub(v, base)
		if d.IsInt64() && d.Int64() > -(1<<30) && d.Int64() < (1<<30) {
			return d.Int64()
		}
		return 999999999
	}
	nbig := n / 3
	for i := 0; i < nbig; i++ {
		base := bases[r.Rand.Intn(len(bases))]
		da, db := int64(r.Rand.Intn(9)-4), int64(r.Rand.Intn(9)-4)
		if r.Rand.Intn(3) == 0 {
			da, db = int64(r.Rand.Intn(2001)-1000), int64(r.Rand.Intn(2001)-1000)
		}
		va, vb := new(big.Int).Add(base, big.NewInt(da)), new(big.Int).Add(base, big.NewInt(db))
		a, b := spell(va), spell(vb)
		if i%2 == 0 {
			sql := fmt.Sprintf("SELECT (%[1]s = %[2]s) AS c1, (%[1]s <> %[2]s) AS c2, (%[1]s < %[2]s) AS c3, (%[1]s <= %[2]s) AS c4, (%[1]s > %[2]s) AS c5, (%[1]s >= %[2]s) AS c6, (%[2]s = %[1]s) AS d1, (%[2]s <> %[1]s) AS d2, (%[2]s < %[1]s) AS d3, (%[2]s <= %[1]s) AS d4, (%[2]s > %[1]s) AS d5, (%[2]s >= %[1]s) AS d6;", a, b)
			cells, e := evalRow(p, sql)
			if e != "" || len(cells) != 12 {
				r.Violation("values:random-eval-error:"+e, sql+" fails: "+e, map[string]interface{}{"a": a, "b": b})
				continue
			}
			var ab, ba []string
			for k := 0; k < 6; k++ {
				ab = append(ab, ternOf(cells[k]))
				ba = append(ba, ternOf(cells[6+k]))
			}
			lines = append(lines, core.JSON(map[string]interface{}{"kind": "wincmp", "da": da, "db": db, "ab": ab, "ba": ba}))
			lits = append(lits, a+" ? "+b+" (integers)")
			continue
		}
		c := int64(1 + r.Rand.Intn(900))
		op := []string{"+", "-", "diff", "mod", "neg"}[r.Rand.Intn(5)]
		var sql string
		ev := map[string]interface{}{"kind": "win", "op": op, "da": da, "db": db, "c": c, "bm": 0, "off": 0, "val": 0, "isint": false}
		switch op {
		case "+", "-":
			sql = fmt.Sprintf("SELECT STRING(%s %s %d) AS r;", a, op, c)
		case "diff":
			sql = fmt.Sprintf("SELECT STRING(%s - %s) AS r;", a, b)
		case "mod":
			sql = fmt.Sprintf("SELECT STRING(%s %% %d) AS r;", a, c)
			bm := new(big.Int).Rem(base, big.NewInt(c)).Int64() // truncated: sign of the base
			if base.Sign() > 0 {
				bm += 2000 * c
			} else {
				bm -= 2000 * c
			}
			ev["bm"] = bm
		case "neg":
			sql = fmt.Sprintf("SELECT STRING(-(%s)) AS r;", a)
		}
		cells, e := evalRow(p, sql)
		if e != "" || len(cells) != 1 {
			r.Violation("values:random-eval-error:"+e, sql+" fails: "+e, nil)
			continue
		}
		if v, ok := new(big.Int).SetString(cells[0].Text, 10); ok && !cells[0].Null {
			ev["isint"] = true
			switch op {
			case "+", "-":
				ev["off"] = off(v, base)
			case "neg":
				ev["off"] = off(v, new(big.Int).Neg(base))
			default:
				ev["val"] = off(v, big.NewInt(0))
			}
		}
		lines = append(lines, core.JSON(ev))
		lits = append(lits, strings.TrimSuffix(strings.TrimPrefix(sql, "SELECT "), " AS r;")+" = "+cells[0].Text)
	}
	// datetimes far from today (before 1678 and after 2262 a nanosecond count does not fit 64 bits): two datetimes in
	// any spelling compare as instants; the harness passes their ranks in chronological order (wincmp on ranks)
	dts := []string{"0001-01-01 00:00:00", "1000-06-15 12:00:00", "1677-09-21 00:12:43", "1677-09-21 00:12:44", "1678-01-01 00:00:00", "1969-12-31 23:59:59", "1970-01-01 00:00:00",
		"2020-02-29 10:00:00", "2262-04-11 23:47:16", "2262-04-11 23:47:17", "2263-01-01 00:00:00", "9999-12-31 23:59:59"}
	dspell := func(k int) string {
		t := dts[k]
		switch r.Rand.Intn(4) {
		case 0:
			return "'" + t + "'"
		case 1:
			return "DATETIME('" + t + "')"
		case 2:
			return "'" + strings.Replace(t, " ", "T", 1) + "Z'"
		}
		if strings.HasSuffix(t, " 00:00:00") {
			return "'" + strings.TrimSuffix(t, " 00:00:00") + "'"
		}
		return "'" + t + "'"
	}
	for i := 0; i < n/6; i++ {
		ka, kb := r.Rand.Intn(len(dts)), r.Rand.Intn(len(dts))
		a, b := dspell(ka), dspell(kb)
		sql := fmt.Sprintf("SELECT (%[1]s = %[2]s) AS c1, (%[1]s <> %[2]s) AS c2, (%[1]s < %[2]s) AS c3, (%[1]s <= %[2]s) AS c4, (%[1]s > %[2]s) AS c5, (%[1]s >= %[2]s) AS c6, (%[2]s = %[1]s) AS d1, (%[2]s <> %[1]s) AS d2, (%[2]s < %[1]s) AS d3, (%[2]s <= %[1]s) AS d4, (%[2]s > %[1]s) AS d5, (%[2]s >= %[1]s) AS d6;", a, b)
		cells, e := evalRow(p, sql)
		if e != "" || len(cells) != 12 {
			r.Violation("values:random-eval-error:"+e, sql+" fails: "+e, map[string]interface{}{"a": a, "b": b})
			continue
		}
		var ab, ba []string
		for k := 0; k < 6; k++ {
			ab = append(ab, ternOf(cells[k]))
			ba = append(ba, ternOf(cells[6+k]))
		}
		lines = append(lines, core.JSON(map[string]interface{}{"kind": "wincmp", "da": ka, "db": kb, "ab": ab, "ba": ba}))
		lits = append(lits, a+" ? "+b+" (datetimes)")
	}
	r.Coverage["big_integer_window_events"] = nbig
	res := r.RunTLC(core.TLCOpts{Module: "ValuesTrace", Cfg: "ValuesTrace.cfg", Workers: 1, Timeout: 10 * time.Minute, KeepOut: true,
		Texts: map[string]string{"trace.ndjson": strings.Join(lines, "\n") + "\n"}})
	for rounds := 0; !res.OK && rounds < 8; rounds++ {
		if res.Violated != "" && res.Violated != "TraceAccepted" {
			core.Fail("ValuesTrace: %s %s", res.Violated, res.ErrorText)
		}
		idx := res.Depth - 1
		if idx < 0 || idx >= len(lines) {
			core.Fail("ValuesTrace rejected at an impossible line %d", idx)
		}
		kind := "consistency-laws"
		if strings.Contains(lines[idx], `"agree"`) {
			kind = "int-float-agreement"
		} else if strings.Contains(lines[idx], `"wincmp"`) {
			kind = "big-integer-comparison"
		} else if strings.Contains(lines[idx], `"win"`) {
			kind = "big-integer-arithmetic"
		}
		if !reported["values:random:"+kind] {
			reported["values:random:"+kind] = true
			r.Violation("values:random:"+kind, fmt.Sprintf("%s: csvq's results %s break the %s", lits[idx], lines[idx], kind), map[string]interface{}{"operands": lits[idx], "observed": lines[idx]})
		}
		lines = lines[idx+1:]
		lits = lits[idx+1:]
		if len(lines) == 0 {
			break
		}
		res = r.RunTLC(core.TLCOpts{Module: "ValuesTrace", Cfg: "ValuesTrace.cfg", Workers: 1, Timeout: 10 * time.Minute, KeepOut: true,
			Texts: map[string]string{"trace.ndjson": strings.Join(lines, "\n") + "\n"}})
	}
	r.Coverage["traces_validated_against_impl"] = len(rows) + n + n/3
	r.Coverage["random_operand_pairs"] = n
}

func randOperand(r *core.Run) string {
	rng := r.Rand
	pad := func(s string) string {
		switch rng.Intn(4) {
		case 0:
			return " " + s
		case 1:
			return s + "  "
		case 2:
			return "\t" + s + " "
		}
		return s
	}
	switch rng.Intn(12) {
	case 0:
		return strconv.FormatInt(rng.Int63()-rng.Int63(), 10)
	case 1:
		return []string{"9223372036854775807", "-9223372036854775807", "9223372036854775806", "0", "1", "-1"}[rng.Intn(6)]
	case 2:
		return strconv.FormatFloat((rng.Float64()-0.5)*math.Pow(10, float64(rng.Intn(12)-3)), 'f', rng.Intn(6)+1, 64)
	case 3:
		return "'" + pad(strconv.FormatInt(int64(rng.Intn(2000)-1000), 10)) + "'"
	case 4:
		return "'" + pad(strconv.FormatFloat(float64(rng.Intn(2000)-1000)/8, 'f', -1, 64)) + "'"
	case 5:
		return "'" + pad([]string{"true", "TRUE", "True", "false", "F", "t", "0", "1", "yes", "no"}[rng.Intn(10)]) + "'"
	case 6:
		return fmt.Sprintf("'2012-%02d-%02d %02d:%02d:%02d'", 1+rng.Intn(12), 1+rng.Intn(28), rng.Intn(24), rng.Intn(60), rng.Intn(60))
	case 7:
		return fmt.Sprintf("DATETIME('20%02d-%02d-%02d')", rng.Intn(30), 1+rng.Intn(12), 1+rng.Intn(28))
	case 8:
		return []string{"NULL", "TRUE", "FALSE", "UNKNOWN", "FLOAT('NaN')", "FLOAT('Inf')", "FLOAT('-Inf')"}[rng.Intn(7)]
	case 9:
		return "'" + pad([]string{"abc", "ABC", "aBc", "", "é", "x y", "1e3", "0x10", "1_000", "١٢"}[rng.Intn(10)]) + "'"
	case 10:
		return strconv.Itoa(rng.Intn(20) - 10)
	}
	return strconv.FormatFloat(float64(rng.Intn(40)-20)/2, 'f', 1, 64)
}

// negative zero is a float spelling of zero, not a disagreement
func normZero(s string) string {
	if s == "-0" {
		return "0"
	}
	return s
}
