// Package props contains one check per property; each file registers itself.
package props

import "verifharness/internal/core"

type Check struct {
	Level  string
	Run    func(r *core.Run)
	Replay func(r *core.Run, path string)
}

var Registry = map[string]*Check{}

// Workers are internal sub-commands of vcheck ("vcheck __name args..."): a check runs a dangerous part of its work
// in a child process of the same executable (memory limit, kill on timeout) and reads its results from stdout.
var Workers = map[string]func(args []string) int{}
