// Package props contains one check per property; each file registers itself.
package props

import "verifharness/internal/core"

type Check struct {
	Level  string
	Run    func(r *core.Run)
	Replay func(r *core.Run, path string)
}

var Registry = map[string]*Check{}
