package props

import (
	"fmt"
	"os"
	"strings"
	"time"

	"verifharness/internal/core"
)

// C07 - ORDER BY, LIMIT, OFFSET return a correctly sorted, correctly cut permutation.
// Cases (table, key list with directions and null positions, offset, limit / percent / ties) are executed on
// the real csvq; TLC evaluates WindowOK (Relational.tla): the result is a contiguous window of SOME correctly
// sorted permutation of the input, of exactly the prescribed size.

func init() {
	Registry["C07"] = &Check{Level: "model_checking", Run: runC07}
}

type sortKey struct {
	I    int  `json:"i"`
	Desc bool `json:"desc"`
	Nf   bool `json:"nf"`
	expl int  // 0 = default null position, 1 = explicit
}

func runC07(r *core.Run) {
	r.Assume = []string{
		"sort-key columns hold mutually comparable values (numbers in several spellings, non-numeric text, or datetimes) plus NULLs and duplicates, as the property states",
	}
	mc := r.MustHold(core.TLCOpts{Module: "RelMC", Cfg: "RelMC_order.cfg", Workers: 8})
	r.Coverage["states"] = mc.Distinct
	r.Coverage["transitions"] = mc.Generated
	// the acceptance predicates themselves: satisfiable, sensitive and functional over all small inputs (RelJudge.tla)
	mj := r.MustHold(core.TLCOpts{Module: "RelJudge", Cfg: "RelJudge_window.cfg", Workers: 8, Timeout: 20 * time.Minute})
	r.Coverage["states"] = mc.Distinct + mj.Distinct
	r.Coverage["transitions"] = mc.Generated + mj.Generated
	ncase := 260
	if r.Thorough {
		ncase = 3000
	}
	var evs []relEvent
	errReported := map[string]bool{}
	rng := r.Rand
	for c := 0; c < ncase; c++ {
		n := []int{0, 1, 2, 3, 5, 8, 13, 40, 120, 170, 330}[rng.Intn(11)]
		if c%9 == 0 {
			n = []int{159, 160, 161, 400}[rng.Intn(4)]
		}
		kinds := []colGen{genNum(3), genText, genInt(2), genDT, genNum(40)}
		if c%5 == 1 {
			kinds[3] = genDTFar
		}
		if c%6 == 3 {
			kinds[1] = genTextBool
		}
		if c%6 == 5 {
			kinds[1] = genTextDT
		}
		if c%5 == 2 {
			kinds[4] = genBig // integers around 2^53, 10^18 and the int64 bounds, a few floats among them
		}
		names := []string{"k1", "k2", "k3", "k4", "k5"}
		cols := append([]string{"id"}, names...)
		gens := append([]colGen{genID}, kinds...)
		t := genTable(r, "t", cols, gens, n)
		// every seventh case: column k4 holds dates in a notation the user declares (SET @@DATETIME_FORMAT): month name first,
		// so that the alphabetical and the chronological order differ
		customDT := c%7 == 6
		if customDT {
			for i := range t.Rows {
				if rng.Intn(9) == 0 {
					t.Rows[i][4] = classify("", true)
					continue
				}
				tm := time.Date(2019+rng.Intn(3), time.Month(1+rng.Intn(12)), 1+rng.Intn(28), 0, 0, 0, 0, time.UTC)
				cell := classify(tm.Format("Jan 2, 2006"), false)
				cell.HasD, cell.D = true, tm.Unix()-1300000000
				t.Rows[i][4] = cell
			}
		}
		nk := 1 + rng.Intn(3)
		// every fourth case aims the cut of LIMIT .. WITH TIES into a group of equal keys: one or two keys
		// with few distinct values in several spellings, limit anywhere inside the table
		tiecut := c%4 == 1 && n >= 3
		if tiecut {
			nk = 1 + rng.Intn(2)
		}
		var keys []sortKey
		var parts []string
		used := map[int]bool{}
		for len(keys) < nk {
			ci := 2 + rng.Intn(5)
			if c%5 == 2 && len(keys) == 0 && rng.Intn(2) == 0 {
				ci = 6 // the big-number column leads
			} else if tiecut {
				ci = []int{2, 4, 2}[rng.Intn(3)] // k1: -3..3 as 3, 3.0, " 3 ", 03, 3.5; k3: 0..2
			}
			if used[ci] {
				continue
			}
			used[ci] = true
			k := sortKey{I: ci, Desc: rng.Intn(2) == 0}
			s := cols[ci-1]
			if k.Desc {
				s += " DESC"
			} else if rng.Intn(2) == 0 {
				s += " ASC"
			}
			k.Nf = !k.Desc // defaults: ASC -> NULLS FIRST, DESC -> NULLS LAST
			if rng.Intn(3) == 0 {
				k.Nf = rng.Intn(2) == 0
				if k.Nf {
					s += " NULLS FIRST"
				} else {
					s += " NULLS LAST"
				}
			}
			keys = append(keys, k)
			parts = append(parts, s)
		}
		sql := "SELECT * FROM t ORDER BY " + strings.Join(parts, ", ")
		// every sixth case: the select list is a permutation of the columns, made DISTINCT (a no-op: id is among them) and
		// extended by an analytic function with an ORDER BY of its own - the final ORDER BY must still sort by ITS keys
		var perm []int
		if c%6 == 3 && n > 0 && !customDT {
			perm = rng.Perm(6)
			var names2 []string
			for _, pi := range perm {
				names2 = append(names2, cols[pi])
			}
			fnk := cols[1+rng.Intn(5)]
			sql = "SELECT DISTINCT " + strings.Join(names2, ", ") + ", " + []string{"RANK", "ROW_NUMBER", "DENSE_RANK"}[rng.Intn(3)] + "() OVER (ORDER BY " + fnk + []string{"", " DESC"}[rng.Intn(2)] + ") AS zz FROM t ORDER BY " + strings.Join(parts, ", ")
		}
		// every eighth case: a computed select-list item (e = k3 * -1) and a leading ORDER BY key that is an expression of
		// its own (k3 * -2: the same order as e); the result must still be the rows of t, each with its own e, sorted by e
		exprKey := c%8 == 7 && n > 0 && perm == nil && !customDT
		if exprKey {
			dir := []string{"", " DESC", " ASC NULLS LAST", " DESC NULLS FIRST"}[rng.Intn(4)]
			ek := sortKey{I: 7, Desc: strings.Contains(dir, "DESC")}
			ek.Nf = !ek.Desc
			if strings.Contains(dir, "NULLS") {
				ek.Nf = strings.Contains(dir, "FIRST")
			}
			keys = append([]sortKey{ek}, keys...)
			sql = "SELECT *, k3 * -1 AS e FROM t ORDER BY k3 * -2" + dir + ", " + strings.Join(parts, ", ")
		}
		m := 0
		lim := map[string]interface{}{"k": "none", "n": 0}
		ties := false
		vals := []int{-1, 0, 1, 2, 3, 5, n - 1, n, n + 1, n / 2, 1000}
		wantInner := c%5 == 4 && n >= 2 && perm == nil && !exprKey
		forcePct := wantInner && !tiecut && rng.Intn(2) == 0
		if forcePct {
			p := []int{10, 33, 50, 99}[rng.Intn(4)]
			lim = map[string]interface{}{"k": "pct", "n": p}
			sql += fmt.Sprintf(" LIMIT %d PERCENT", p)
			if rng.Intn(3) == 0 {
				sql += " WITH TIES"
				ties = true
			}
		} else if tiecut {
			x := 1 + rng.Intn(n-1)
			lim = map[string]interface{}{"k": "n", "n": x}
			sql += fmt.Sprintf(" LIMIT %d WITH TIES", x)
			ties = true
		} else if rng.Intn(3) > 0 {
			switch rng.Intn(3) {
			case 0:
				x := vals[rng.Intn(len(vals))]
				lim = map[string]interface{}{"k": "n", "n": x}
				sql += fmt.Sprintf(" LIMIT %d", x)
				if rng.Intn(8) == 0 {
					// a number beyond every integer: more than there are rows (1000000 stands for it in the event)
					lim = map[string]interface{}{"k": "n", "n": 1000000}
					sql = strings.TrimSuffix(sql, fmt.Sprintf(" LIMIT %d", x)) + " LIMIT " + []string{"1e30", "9223372036854775808", "'1e19'"}[rng.Intn(3)]
				}
			case 1:
				p := []int{-5, 0, 1, 10, 33, 50, 99, 100, 150}[rng.Intn(9)]
				lim = map[string]interface{}{"k": "pct", "n": p}
				sql += fmt.Sprintf(" LIMIT %d PERCENT", p)
			case 2:
				x := vals[rng.Intn(len(vals))]
				lim = map[string]interface{}{"k": "n", "n": x}
				sql += fmt.Sprintf(" LIMIT %d WITH TIES", x)
				ties = true
			}
		}
		if !forcePct && rng.Intn(2) == 0 && !(tiecut && rng.Intn(2) == 0) {
			m = vals[rng.Intn(len(vals))]
			sql += fmt.Sprintf(" OFFSET %d", m)
			if rng.Intn(10) == 0 {
				m = 1000000
				sql = sql[:strings.LastIndex(sql, " OFFSET ")] + " OFFSET 1e30"
			}
		}
		// every twelfth case: the cut query stands on the right of IN - the rows whose id it yields, sorted again by the same keys,
		// are a correctly cut window of the table all the same (a sub-query's ORDER BY matters as soon as it is cut)
		if c%12 == 11 && n >= 2 && perm == nil && !exprKey && !customDT && !wantInner && strings.HasPrefix(sql, "SELECT * FROM t ORDER BY ") {
			if lim["k"] == "none" && m == 0 {
				m = []int{1, 2, n / 2, n - 1}[rng.Intn(4)]
				sql += fmt.Sprintf(" OFFSET %d", m)
			}
			sql = "SELECT * FROM t WHERE id IN (" + strings.Replace(sql, "SELECT * FROM t", "SELECT id FROM t", 1) + ") ORDER BY " + strings.Join(parts, ", ")
		}
		// every fifth case: the rows come from a derived table that has an OFFSET of its own (it drops the rows with the smallest
		// ids); the outer OFFSET / LIMIT / PERCENT count the rows the outer query receives, nothing else
		inner := 0
		if wantInner {
			inner = []int{1, 2, n / 2, n / 2, n / 3, n - 1}[rng.Intn(6)]
			if inner < 1 {
				inner = 1
			}
			sql = strings.Replace(sql, "SELECT * FROM t ORDER BY", fmt.Sprintf("SELECT * FROM (SELECT * FROM t ORDER BY id OFFSET %d) s ORDER BY", inner), 1)
		}
		cpu := []int{1, 4, 8}[rng.Intn(3)]
		x := newRelRun(r, cpu, t)
		pre := ""
		if customDT {
			pre = "SET @@DATETIME_FORMAT TO '%b %e, %Y'; "
		}
		res, _, e := x.query(pre + sql + ";")
		x.close()
		if customDT {
			// the result cells of k4 are datetimes under the declared notation as well
			for i := range res {
				if len(res[i]) > 4 && !res[i][4].N {
					if tm, err := time.Parse("Jan 2, 2006", res[i][4].T); err == nil {
						res[i][4].HasD, res[i][4].D = true, tm.Unix()-1300000000
					}
				}
			}
		}
		sig := "order"
		if lim["k"] != "none" {
			sig += ":limit-" + lim["k"].(string)
		}
		if ties {
			sig += ":ties"
		}
		if m != 0 {
			sig += ":offset"
		}
		if strings.Contains(sql, " WHERE id IN (") {
			sig += ":in-subquery"
		}
		if e != "" {
			legit := (e == "InvalidLimitNumber" || e == "InvalidLimitPercentage" || e == "InvalidOffsetNumber") && false
			if !legit && !errReported[e+sig] {
				errReported[e+sig] = true
				r.Violation("order:error:"+e+":"+sig, sql+" fails with "+e, map[string]interface{}{"sql": sql, "rows": n})
			}
			continue
		}
		in, idc := t.Rows, 1
		if inner > 0 {
			in = t.Rows[inner:]
			sig += ":derived-offset"
		}
		if exprKey {
			in = nil
			for _, row := range t.Rows {
				e := classify("", true)
				if !row[3].N {
					e = classify(fmt.Sprint(-row[3].bi), false)
				}
				in = append(in, append(append([]rcell{}, row...), e))
			}
			sig += ":expression-key"
		}
		if perm != nil {
			// judge in the permuted column order: project the input, drop the analytic column of the result, re-index the keys
			pos := map[int]int{}
			for k, pi := range perm {
				pos[pi+1] = k + 1
			}
			in = nil
			for _, row := range t.Rows {
				var pr []rcell
				for _, pi := range perm {
					pr = append(pr, row[pi])
				}
				in = append(in, pr)
			}
			for k := range res {
				res[k] = res[k][:6]
			}
			var keys2 []sortKey
			for _, k := range keys {
				k.I = pos[k.I]
				keys2 = append(keys2, k)
			}
			keys, idc = keys2, pos[1]
			sig += ":distinct-analytic"
		}
		rankStrings(in, res)
		if compressNumeric(in, res) {
			r.Count("events_with_numbers_beyond_tlc_range", 1)
		}
		evs = append(evs, relEvent{SQL: sql, Sig: sig, CPU: cpu, Ev: map[string]interface{}{
			"kind": "sort", "in": cellsJSON(in), "res": cellsJSON(res), "keys": keys, "m": m, "lim": lim, "ties": ties, "idc": idc}})
		if inner > 0 && os.Getenv("VERIF_DEBUG") != "" {
			fmt.Fprintln(os.Stderr, "DEBUG", sql, n, len(res), lim, m)
		}
		r.Distinct(sql + fmt.Sprint(n))
		if c < 3 {
			r.Sample(map[string]interface{}{"sql": sql, "rows": n, "cpu": cpu, "returned": len(res)})
		}
	}
	reported := map[string]bool{}
	for _, i := range validateRel(r, evs) {
		e := evs[i]
		if reported[e.Sig] {
			continue
		}
		reported[e.Sig] = true
		r.Violation(e.Sig, fmt.Sprintf("%s (cpu %d, %d rows in, %d rows out): the result is not a correctly sorted, correctly cut permutation",
			e.SQL, e.CPU, len(e.Ev["in"].([][]rcell)), len(e.Ev["res"].([][]rcell))), map[string]interface{}{"sql": e.SQL, "event": e.Ev})
	}
	r.Coverage["traces_validated_against_impl"] = len(evs)
	r.Coverage["exhaustive"] = false
}
