package props

import (
	"encoding/json"
	"fmt"
	"os"
	"path/filepath"
	"sort"
	"strings"
	"sync"
	"time"

	"github.com/mithrandie/csvq/lib/parser"
	"github.com/mithrandie/csvq/lib/query"
	"github.com/mithrandie/csvq/lib/value"

	"verifharness/internal/core"
	"verifharness/internal/sut"
)

// C14 - evaluation never changes what it only reads: pooled values, shared syntax trees.
//
//  (a) ValuePool.tla: under the discipline "discard only unpublished temporaries, once" no holder observes
//      a change; without it TLC finds an alias (so the discipline is exactly what has to hold).  The real
//      code is run with the poison switch of lib/value (build tag verif): Discard poisons the object, never
//      re-issues it, and reports a second Discard of the same object.  The recorded lifecycle events are
//      validated by TLC (ValuePoolTrace): no double Discard, no discarded object in any result.
//  (b) the program is a constant: every expression of a sweep over all built-in functions and operators is
//      evaluated twice in a row, in a WHILE loop, in a user-defined function called twice, as a prepared
//      statement executed twice and over several rows: all evaluations must agree, variables and table cells
//      must be unchanged, and the printed form of every parsed statement must be the same after execution.

func init() {
	Registry["C14"] = &Check{Level: "model_checking", Run: runC14}
}

var nondeterministic = map[string]bool{"RAND": true, "NOW": true, "UUID": true, "CALL": true, "RANDOM": true}

type c14prog struct {
	expr    string
	results []string // result of each evaluation (value text or error class)
	labels  []string
	poison  bool
	astDiff string
	varsOK  bool
	cellsOK bool
}

// execAST executes sql like Proc.Exec but also compares the printed form of every parsed statement before and
// after the execution.
func execAST(p *sut.Proc, sql string, astDiff *string) sut.Res {
	stmts, _, err := parser.Parse(sql, "", false, p.Tx.Flags.AnsiQuotes)
	if err != nil {
		return p.Exec(sql)
	}
	before := make([]string, len(stmts))
	for i, s := range stmts {
		before[i] = fmt.Sprintf("%v", s)
	}
	p.Out.Reset()
	p.Err.Reset()
	var res sut.Res
	func() {
		defer func() {
			if r := recover(); r != nil {
				res.Fatal, res.Err, res.Code = true, fmt.Sprintf("panic: %v", r), 1
			}
		}()
		flow, err := p.Proc.Execute(p.Ctx, stmts)
		res.Flow = flow
		if err != nil {
			res.Err = err.Error()
			res.Code = 1
			if qe, ok := err.(query.Error); ok {
				res.Code, res.Num = qe.Code(), qe.Number()
			}
			if _, ok := err.(*query.FatalError); ok {
				res.Fatal = true
			}
		}
	}()
	res.Out, res.Log = p.Out.String(), p.Err.String()
	for i, s := range stmts {
		if after := fmt.Sprintf("%v", s); after != before[i] && *astDiff == "" {
			*astDiff = fmt.Sprintf("statement %q printed as\n  %s\nbefore and as\n  %s\nafter its execution", sql, before[i], after)
		}
	}
	return res
}

func resText(r sut.Res) string {
	if r.Err != "" {
		return "error:" + errClass(r)
	}
	return strings.TrimSpace(r.Out)
}

func runC14Expr(dir string, expr string) c14prog {
	pg := c14prog{expr: expr, varsOK: true, cellsOK: true}
	p, err := sut.NewProc(dir, nil)
	if err != nil {
		core.Fail("proc: %v", err)
	}
	defer p.End()
	ex := func(label, sql string) string {
		r := execAST(p, sql, &pg.astDiff)
		t := resText(r)
		if r.Err == "" {
			t = unquotePrinted(t)
		}
		if strings.Contains(r.Out+r.Err, value.VerifPoisonString) || strings.Contains(r.Out, "-7777777777777") || strings.Contains(r.Out, "1666-06-06") {
			pg.poison = true
		}
		pg.results = append(pg.results, t)
		pg.labels = append(pg.labels, label)
		return t
	}
	p.Exec("VAR @v := 'keep'; VAR @n := 41; VAR @i := 0;")
	ex("first", "PRINT "+expr+";")
	ex("second", "PRINT "+expr+";")
	r := execAST(p, "WHILE @i < 2 DO @i := @i + 1; PRINT "+expr+"; END WHILE;", &pg.astDiff)
	if r.Err != "" {
		pg.results = append(pg.results, "error:"+errClass(r), "error:"+errClass(r))
	} else {
		ls := printed(r.Out)
		for len(ls) < 2 {
			ls = append(ls, "<missing>")
		}
		pg.results = append(pg.results, unq(ls[0], expr), unq(ls[1], expr))
	}
	pg.labels = append(pg.labels, "loop-1", "loop-2")
	p.Exec("DECLARE uf FUNCTION () AS BEGIN RETURN " + expr + "; END;")
	ex("function-1", "PRINT uf();")
	ex("function-2", "PRINT uf();")
	esc := strings.ReplaceAll(expr, "'", "''")
	p.Exec("PREPARE st FROM 'PRINT " + esc + ";';")
	ex("prepared-1", "EXECUTE st;")
	ex("prepared-2", "EXECUTE st;")
	if v := resText(p.Exec("PRINT @v; PRINT @n;")); v != "'keep'\n41" {
		pg.varsOK = false
	}
	// over several rows of a table, twice; then the cells must be what they were
	q := "SELECT " + expr + " AS r FROM tbl;"
	a := resText(execAST(p, q, &pg.astDiff))
	b := resText(execAST(p, q, &pg.astDiff))
	pg.results = append(pg.results, "rows:"+a, "rows:"+b)
	pg.labels = append(pg.labels, "table-1", "table-2")
	if strings.Contains(a+b, value.VerifPoisonString) {
		pg.poison = true
	}
	if cells := resText(p.Exec("SELECT c1, c2 FROM tbl;")); cells != tblJSON {
		pg.cellsOK = false
	}
	return pg
}

func unq(s, expr string) string { return s }

const tblCSV = "c1,c2\n1,a\n2,bb\n3,\n4,2012-02-03\n5,2.5\n"

var tblJSON = ""

func runC14(r *core.Run) {
	r.Assume = []string{
		"the poison switch (build tag verif) replaces re-issue by poisoning: a read of a discarded object shows a marker instead of silently reading a recycled value",
		"built-in functions are swept with 0-3 arguments from a small repertoire (integer, float, text, padded number, NULL, date text, TRUE); RAND/NOW-like functions are excluded; aggregate and analytic functions are covered by the replays of the other specifications under poison",
	}
	mc := r.MustHold(core.TLCOpts{Module: "ValuePoolMC", Cfg: "ValuePoolMC.cfg", Workers: 4})
	r.Coverage["states"] = mc.Distinct
	r.Coverage["transitions"] = mc.Generated
	ab := r.RunTLC(core.TLCOpts{Module: "ValuePoolMC", Cfg: "ValuePoolMC_undisciplined.cfg", Workers: 4, KeepOut: true})
	if ab.Violated != "NoAlias" {
		core.Fail("ablation of the discard discipline should break NoAlias (vacuity check), got %q", ab.Violated)
	}

	value.VerifPoison = true
	var dmu sync.Mutex
	var doubles []string
	value.VerifReport = func(kind string, p value.Primary) {
		dmu.Lock()
		if len(doubles) < 50 {
			doubles = append(doubles, fmt.Sprintf("%s of %T %v", kind, p, p))
		}
		dmu.Unlock()
	}
	defer func() { value.VerifPoison = false; value.VerifReport = nil }()

	dir := r.Dir("c14")
	writeFile(filepath.Join(dir, "tbl.csv"), tblCSV)
	{
		p, _ := sut.NewProc(dir, nil)
		tblJSON = resText(p.Exec("SELECT c1, c2 FROM tbl;"))
		p.End()
	}
	var names []string
	for n := range query.Functions {
		if !nondeterministic[n] {
			names = append(names, n)
		}
	}
	sort.Strings(names)
	args := []string{"1", "2.5", "'abc'", "' 12 '", "NULL", "'2012-02-03'", "TRUE", "c1", "c2", "@n"}
	var exprs []string
	rng := r.Rand
	per := 10
	if r.Thorough {
		per = 60
	}
	for _, n := range names {
		exprs = append(exprs, n+"()")
		for _, a := range args {
			exprs = append(exprs, n+"("+a+")")
		}
		for k := 0; k < per; k++ {
			a, b, c := args[rng.Intn(len(args))], args[rng.Intn(len(args))], args[rng.Intn(len(args))]
			if k%2 == 0 {
				exprs = append(exprs, n+"("+a+", "+b+")")
			} else {
				exprs = append(exprs, n+"("+a+", "+b+", "+c+")")
			}
		}
	}
	// operators and clauses
	for _, a := range args {
		for _, b := range args[:7] {
			for _, op := range []string{"+", "-", "*", "/", "%", "=", "<", "||", "AND", "OR", "LIKE"} {
				exprs = append(exprs, "("+a+" "+op+" "+b+")")
			}
			exprs = append(exprs, "CASE WHEN "+a+" = "+b+" THEN "+a+" ELSE "+b+" END", a+" IN ("+b+", 1, 'abc')", a+" BETWEEN "+b+" AND 3",
				"COALESCE("+a+", "+b+")", "(SELECT COUNT(*) FROM tbl WHERE c1 > "+b+")")
		}
	}
	type out struct {
		sig, what string
		lines     []string
	}
	results := make([]out, len(exprs))
	refersRow := func(e string) bool { return strings.Contains(e, "c1") || strings.Contains(e, "c2") }
	core.Parallel(len(exprs), 8, func(i int) {
		e := exprs[i]
		var pg c14prog
		if refersRow(e) {
			// row expressions only make sense inside a query
			pg = c14prog{expr: e, varsOK: true, cellsOK: true}
			p, err := sut.NewProc(dir, nil)
			if err != nil {
				core.Fail("proc: %v", err)
			}
			p.Exec("VAR @n := 41;")
			q := "SELECT " + e + " AS r FROM tbl;"
			a := resText(execAST(p, q, &pg.astDiff))
			b := resText(execAST(p, q, &pg.astDiff))
			pg.results, pg.labels = []string{a, b}, []string{"table-1", "table-2"}
			pg.poison = strings.Contains(a+b, value.VerifPoisonString)
			pg.cellsOK = resText(p.Exec("SELECT c1, c2 FROM tbl;")) == tblJSON
			p.End()
		} else {
			pg = runC14Expr(dir, e)
		}
		o := out{}
		fname := e
		if k := strings.IndexAny(e, "( "); k > 0 {
			fname = e[:k]
		}
		switch {
		case pg.poison:
			o.sig, o.what = "reuse:discarded-value-read:"+fname, fmt.Sprintf("evaluating %s shows a value that had been discarded: %v", e, pg.results)
			o.lines = []string{`{"ev":"reset"}`, `{"ev":"read","o":"poisoned"}`}
		case pg.astDiff != "":
			o.sig, o.what = "reuse:syntax-tree-changed:"+fname, pg.astDiff
		case !pg.varsOK:
			o.sig, o.what = "reuse:variable-changed:"+fname, fmt.Sprintf("evaluating %s changed a variable it does not assign", e)
		case !pg.cellsOK:
			o.sig, o.what = "reuse:cell-changed:"+fname, fmt.Sprintf("evaluating %s changed table cells it only reads", e)
		default:
			// all scalar evaluations agree; both table evaluations agree
			for k := 1; k < len(pg.results); k++ {
				ref := 0
				if strings.HasPrefix(pg.results[k], "rows:") {
					if !strings.HasPrefix(pg.results[k-1], "rows:") {
						continue
					}
					ref = k - 1
				}
				if pg.results[k] != pg.results[ref] {
					o.sig = "reuse:different-value:" + fname + ":" + pg.labels[k]
					o.what = fmt.Sprintf("%s evaluates to %q (%s) but to %q (%s)", e, pg.results[ref], pg.labels[ref], pg.results[k], pg.labels[k])
					break
				}
			}
		}
		if o.lines == nil {
			o.lines = []string{`{"ev":"reset"}`, `{"ev":"ok"}`}
		}
		results[i] = o
	})
	// whole statements (clauses that analyse or rewrite their syntax tree): twice in one session, then once more
	// after a different statement on the same table; prepared and executed twice
	stmtsSweep := []string{
		"SELECT COUNT(*) OVER () AS r FROM tbl", "SELECT COUNT(*) OVER (PARTITION BY c2) AS r FROM tbl", "SELECT c1, SUM(c1) OVER (ORDER BY c1) AS r FROM tbl",
		"SELECT c1, RANK() OVER (ORDER BY c2) AS r FROM tbl", "SELECT c1, LAG(c1, 1, 0) OVER (ORDER BY c1) AS r FROM tbl", "SELECT c1, NTILE(2) OVER (ORDER BY c1) AS r FROM tbl",
		"SELECT c1, FIRST_VALUE(c2) IGNORE NULLS OVER (ORDER BY c1) AS r FROM tbl", "SELECT c1, LISTAGG(c2, ',') OVER () AS r FROM tbl",
		"SELECT c2, COUNT(*) AS n, SUM(c1) AS s FROM tbl GROUP BY c2", "SELECT COUNT(*) AS n, MAX(c1) AS m FROM tbl", "SELECT COUNT(DISTINCT c2) AS n FROM tbl",
		"SELECT LISTAGG(c2, '-') WITHIN GROUP (ORDER BY c1 DESC) AS l FROM tbl", "SELECT JSON_AGG(c1) AS j FROM tbl", "SELECT MEDIAN(c1) AS m, STDEV(c1) AS s FROM tbl",
		"SELECT * FROM tbl ORDER BY c1 DESC LIMIT 2", "SELECT * FROM tbl ORDER BY c2 NULLS LAST LIMIT 50 PERCENT", "SELECT DISTINCT c2 FROM tbl",
		"SELECT * FROM (SELECT c1, c2 FROM tbl) s WHERE s.c1 > 1", "WITH w AS (SELECT c1 FROM tbl) SELECT * FROM w", "SELECT t.c1, u.c2 FROM tbl t JOIN tbl u ON t.c1 = u.c1",
		"SELECT t.c1 FROM tbl t LEFT JOIN tbl u USING (c1)", "SELECT c1 FROM tbl UNION SELECT c1 + 1 FROM tbl", "SELECT c1 FROM tbl WHERE c1 IN (SELECT c1 FROM tbl WHERE c1 < 3)",
		"SELECT c1 FROM tbl WHERE EXISTS (SELECT 1 FROM tbl u WHERE u.c1 = tbl.c1 + 1)", "SELECT CASE c1 WHEN 1 THEN 'one' ELSE c2 END AS r FROM tbl",
		"SELECT c1, (SELECT MAX(c1) FROM tbl) AS m FROM tbl", "SELECT SUBSTRING(c2, 1, 1) || '-' || c1 AS r FROM tbl", "SELECT c1 FROM tbl WHERE c2 LIKE 'b%' OR c2 IS NULL",
	}
	for _, q := range stmtsSweep {
		p, err := sut.NewProc(dir, nil)
		if err != nil {
			core.Fail("proc: %v", err)
		}
		astDiff := ""
		a := resText(execAST(p, q+";", &astDiff))
		b := resText(execAST(p, q+";", &astDiff))
		p.Exec("SELECT COUNT(*) FROM tbl;")
		c := resText(execAST(p, q+";", &astDiff))
		p.Exec("PREPARE ps FROM '" + strings.ReplaceAll(q, "'", "''") + ";';")
		d := resText(execAST(p, "EXECUTE ps;", &astDiff))
		e := resText(execAST(p, "EXECUTE ps;", &astDiff))
		cells := resText(p.Exec("SELECT c1, c2 FROM tbl;"))
		p.End()
		o := out{lines: []string{`{"ev":"reset"}`, `{"ev":"ok"}`}}
		kind := strings.Fields(strings.TrimPrefix(q, "SELECT "))[0]
		switch {
		case strings.Contains(a+b+c+d+e, value.VerifPoisonString):
			o.sig, o.what = "reuse:discarded-value-read:stmt", q+" shows a discarded value"
			o.lines = []string{`{"ev":"reset"}`, `{"ev":"read","o":"poisoned"}`}
		case astDiff != "":
			o.sig, o.what = "reuse:syntax-tree-changed:stmt:"+kind, astDiff
		case a != b || a != c || d != e || (a != d && !strings.HasPrefix(d, "error:")):
			o.sig, o.what = "reuse:different-value:stmt:"+kind, fmt.Sprintf("%s gives %q, %q, %q; prepared %q, %q", q, a, b, c, d, e)
		case cells != tblJSON:
			o.sig, o.what = "reuse:cell-changed:stmt", q+" changed the cells of tbl"
		}
		results = append(results, o)
		exprs = append(exprs, q)
	}
	c14Sources(r, dir)
	// the program is a constant also where it is a declaration: the DEFAULT expression of a function parameter is
	// evaluated at every call (Scope.tla, family Sk11: the same call before and after what the default reads changed)
	{
		var cases []scopeCase
		// ... and the blocks of the program are not shared between what is alive at the same time: functions left by RETURN from
		// inside a loop, then blocks nested four deep; blocks with many declarations (families Sk12, Sk18, Sk19)
		for _, cfg := range []string{"ScopeGen_defaults.cfg", "ScopeGen_pool.cfg"} {
			r.RunTLC(core.TLCOpts{Module: "ScopeGen", Cfg: cfg, Workers: 2, Timeout: 10 * time.Minute, OnTrace: func(raw json.RawMessage) {
				var c scopeCase
				if err := json.Unmarshal(raw, &c); err == nil && c.Prog != nil {
					if c.Out == nil {
						c.Out = []string{}
					}
					cases = append(cases, c)
				}
			}})
		}
		rep := map[string]bool{}
		for _, c := range cases {
			p, err := sut.NewProc(dir, nil)
			if err != nil {
				core.Fail("proc: %v", err)
			}
			sig, what := runScopeCase(r, p, c)
			p.End()
			if sig != "" && !rep[sig] {
				rep[sig] = true
				r.Violation("reuse:function-default:"+sig, what, map[string]interface{}{"program": c.Prog})
			}
		}
		r.Coverage["default_parameter_programs"] = len(cases)
	}
	var lines []string
	reported := map[string]bool{}
	for i, o := range results {
		r.Distinct(exprs[i])
		lines = append(lines, o.lines...)
		if o.sig == "" || reported[o.sig] {
			continue
		}
		reported[o.sig] = true
		r.Violation(o.sig, o.what, map[string]interface{}{"expression": exprs[i]})
	}
	dmu.Lock()
	nd := len(doubles)
	for k, d := range doubles {
		if k < 10 {
			lines = append(lines, `{"ev":"reset"}`, fmt.Sprintf(`{"ev":"discard","o":"d%d"}`, k), fmt.Sprintf(`{"ev":"discard","o":"d%d"}`, k))
		}
		_ = d
	}
	dmu.Unlock()
	res := r.RunTLC(core.TLCOpts{Module: "ValuePoolTrace", Cfg: "ValuePoolTrace.cfg", Workers: 1, Timeout: 10 * time.Minute, KeepOut: true,
		Texts: map[string]string{"trace.ndjson": strings.Join(lines, "\n") + "\n"}})
	if !res.OK {
		if res.Violated != "TraceAccepted" && res.Violated != "" {
			core.Fail("ValuePoolTrace: %s", res.ErrorText)
		}
		if nd > 0 && !reported["reuse:double-discard"] {
			r.Violation("reuse:double-discard", fmt.Sprintf("an object was discarded twice (it would be issued to two owners): %v", doubles[:minInt(3, nd)]), map[string]interface{}{"reports": doubles})
		}
		if r.Violations() == 0 {
			core.Fail("ValuePoolTrace rejected the lifecycle trace at line %d but no program was flagged", res.Depth-1)
		}
	}
	r.Sample(map[string]interface{}{"expression": exprs[len(exprs)/2], "evaluations": "twice, WHILE x2, function x2, prepared x2, table x2"})
	r.Coverage["traces_validated_against_impl"] = len(exprs)
	r.Coverage["expressions"] = len(exprs)
	r.Coverage["double_discards_reported"] = nd
	r.Coverage["exhaustive"] = false
}

// c14Sources: reading the same data again gives the same values, for every kind of source and every shape of
// reader.  Within one statement: a query over a common table expression / a sub-query evaluated next to a plain
// read of the same source (UNION ALL) must give what each part gives alone (RelTrace, kind "concat"); across
// statements: plain read, reader, plain read of a file table, a temporary table and a cursor.
func c14Sources(r *core.Run, dir string) {
	src := "SELECT c1, c2, c1 * 2 AS d FROM tbl"
	plain := "SELECT c1, c2, d FROM %s"
	readers := []string{
		"SELECT c2 AS x, c1 AS y, d AS z FROM %s", "SELECT d AS x, c1 + 1 AS y, c2 AS z FROM %s", "SELECT c1 AS x, c1 AS y, c1 AS z FROM %s", "SELECT d AS x, d AS y, c2 AS z FROM %s",
		"SELECT c1 * 10 AS x, c2 || 'x' AS y, d AS z FROM %s WHERE c1 > 1", "SELECT c2 AS x, COUNT(*) AS y, SUM(d) AS z FROM %s GROUP BY c2",
		"SELECT c1 AS x, c2 AS y, ROW_NUMBER() OVER (ORDER BY c1 DESC) AS z FROM %s", "SELECT x, y, z FROM (SELECT c1 AS x, c2 AS y, d AS z FROM %s ORDER BY c1 DESC LIMIT 2) lim",
		"SELECT DISTINCT c2 AS x, 1 AS y, 2 AS z FROM %s", "SELECT a.c1 AS x, b.c2 AS y, a.d AS z FROM %s a JOIN %s b ON a.c1 = b.c1",
		"SELECT c2 AS x, d AS y, (SELECT MAX(c1) FROM %s) AS z FROM %s", "SELECT UPPER(c2) AS x, -c1 AS y, d / 2 AS z FROM %s",
	}
	fill := func(q, name string) string { return strings.ReplaceAll(q, "%s", name) }
	rowsOf := func(p *sut.Proc, sql string) ([]string, string) {
		res := p.Exec(sql)
		if res.Err != "" {
			return nil, errClass(res)
		}
		ts, err := sut.ParseJSONTables(res.Out)
		if err != nil {
			core.Fail("c14 sources: %v", err)
		}
		out := []string{}
		if len(ts) > 0 {
			for _, row := range ts[0].Rows {
				var cs []string
				for _, c := range row {
					cs = append(cs, c.String())
				}
				out = append(out, strings.Join(cs, "|"))
			}
		}
		return out, ""
	}
	var evs []relEvent
	add := func(sig, sql string, parts [][]string, whole []string) {
		evs = append(evs, relEvent{SQL: sql, Sig: sig, CPU: 1, Ev: map[string]interface{}{"kind": "concat", "parts": parts, "whole": whole}})
	}
	for ri, rd := range readers {
		p, err := sut.NewProc(dir, nil)
		if err != nil {
			core.Fail("proc: %v", err)
		}
		fail := func(sig, sql, e string) {
			r.Violation("reuse:source:"+sig+":error:"+e, sql+" fails with "+e, map[string]interface{}{"sql": sql})
		}
		// (1) common table expression
		with := "WITH w AS (" + src + ") "
		ra, e1 := rowsOf(p, with+fill(rd, "w")+";")
		pa, e2 := rowsOf(p, with+fill(plain, "w")+";")
		if e1 != "" || e2 != "" {
			fail("cte", with+fill(rd, "w"), e1+e2)
		} else {
			for _, shape := range [][]string{{"r", "p"}, {"p", "r", "p"}, {"r", "r", "p"}} {
				var qs []string
				var parts [][]string
				for _, k := range shape {
					if k == "r" {
						qs, parts = append(qs, fill(rd, "w")), append(parts, ra)
					} else {
						qs, parts = append(qs, fill(plain, "w")), append(parts, pa)
					}
				}
				sql := with + strings.Join(qs, " UNION ALL ")
				whole, e := rowsOf(p, sql+";")
				if e != "" {
					fail("cte", sql, e)
					continue
				}
				add(fmt.Sprintf("reuse:source:cte:reader%d", ri), sql, parts, whole)
			}
		}
		// (2) sub-query in FROM
		sq := "(" + src + ") s"
		rb, e1 := rowsOf(p, strings.ReplaceAll(fill(rd, sq), sq+" a JOIN "+sq+" b", "("+src+") a JOIN ("+src+") b")+";")
		if strings.Contains(rd, " a JOIN ") || strings.Contains(rd, "(SELECT MAX") {
			rb, e1 = nil, "skip"
		}
		pb, e2 := rowsOf(p, fill(plain, sq)+";")
		if e1 == "" && e2 == "" {
			sql := fill(rd, sq) + " UNION ALL " + fill(plain, sq)
			whole, e := rowsOf(p, sql+";")
			if e != "" {
				fail("subquery", sql, e)
			} else {
				add(fmt.Sprintf("reuse:source:subquery:reader%d", ri), sql, [][]string{rb, pb}, whole)
			}
		}
		// (3) temporary table and file table across statements: plain, reader, plain
		p.Exec("DECLARE tt VIEW (c1, c2, d) AS " + src + ";")
		for _, name := range []string{"tt", "(SELECT c1, c2, c1 * 2 AS d FROM tbl) q"} {
			if strings.HasPrefix(name, "(") && (strings.Contains(rd, " a JOIN ") || strings.Contains(rd, "(SELECT MAX")) {
				continue
			}
			p1, e1 := rowsOf(p, fill(plain, name)+";")
			_, e2 := rowsOf(p, fill(rd, name)+";")
			p2, e3 := rowsOf(p, fill(plain, name)+";")
			if e1+e2+e3 != "" {
				fail("table", fill(rd, name), e1+e2+e3)
				continue
			}
			add(fmt.Sprintf("reuse:source:table:reader%d", ri), fill(plain, name)+"; "+fill(rd, name)+"; "+fill(plain, name), [][]string{p1}, p2)
		}
		// (4) cursor: the rows a cursor holds are not changed by a reader of the same table in between
		p.Exec("DECLARE cur CURSOR FOR " + src + "; OPEN cur; VAR @a, @b, @c;")
		p.Exec("FETCH cur INTO @a, @b, @c;")
		_, _ = rowsOf(p, fill(rd, "tbl")+";")
		_, _ = rowsOf(p, strings.ReplaceAll(fill(rd, "tt"), "%s", "tt")+";")
		rest := []string{}
		for k := 0; k < 4; k++ {
			rr := p.Exec("FETCH cur INTO @a, @b, @c; SELECT @a, @b, @c;")
			if rr.Err == "" {
				if ts, err := sut.ParseJSONTables(rr.Out); err == nil && len(ts) > 0 && len(ts[0].Rows) > 0 {
					var cs []string
					for _, c := range ts[0].Rows[0] {
						cs = append(cs, c.String())
					}
					rest = append(rest, strings.Join(cs, "|"))
				}
			}
		}
		if len(pa) >= 5 {
			add(fmt.Sprintf("reuse:source:cursor:reader%d", ri), "FETCH after "+fill(rd, "tt"), [][]string{pa[1:5]}, rest)
		}
		p.End()
		r.Count("source_reader_programs", 1)
	}
	// (5) writers: an UPDATE gives the table new cells; what was read from it before - the rows of an open cursor over a
	// temporary table, the restore point a ROLLBACK returns to, the other column of SET a = b, b = a - keeps the old values
	{
		p, err := sut.NewProc(dir, nil)
		if err != nil {
			core.Fail("proc: %v", err)
		}
		p.Exec("DECLARE wt VIEW (c1, c2, d) AS " + src + "; COMMIT;")
		before, _ := rowsOf(p, "SELECT c1, c2, d FROM wt;")
		p.Exec("DECLARE wc CURSOR FOR SELECT c1, c2, d FROM wt; OPEN wc; VAR @x, @y, @z;")
		p.Exec("UPDATE wt SET d = d + 1000;")
		var fetched []string
		for k := 0; k < len(before); k++ {
			rr := p.Exec("FETCH wc INTO @x, @y, @z; SELECT @x, @y, @z;")
			if ts, err := sut.ParseJSONTables(rr.Out); rr.Err == "" && err == nil && len(ts) > 0 && len(ts[0].Rows) > 0 {
				var cs []string
				for _, c := range ts[0].Rows[0] {
					cs = append(cs, c.String())
				}
				fetched = append(fetched, strings.Join(cs, "|"))
			}
		}
		add("reuse:writer:cursor-over-updated-table", "DECLARE wc CURSOR FOR SELECT .. FROM wt; OPEN wc; UPDATE wt SET d = d + 1000; FETCH wc ..", [][]string{before}, fetched)
		p.Exec("ROLLBACK;")
		after, _ := rowsOf(p, "SELECT c1, c2, d FROM wt;")
		add("reuse:writer:rollback-of-updated-temporary-table", "UPDATE wt SET d = d + 1000; ROLLBACK; SELECT .. FROM wt", [][]string{before}, after)
		p.Exec("UPDATE wt SET c1 = d, d = c1;")
		sw, _ := rowsOf(p, "SELECT d, c2, c1 FROM wt;")
		add("reuse:writer:swap-assignment", "UPDATE wt SET c1 = d, d = c1; SELECT d, c2, c1 FROM wt", [][]string{before}, sw)
		p.End()
	}
	// (6) the items of one select list read the same rows: a statement with the items x, y gives, column by column, what the
	// statements with x alone and with y alone give (aggregates with and without DISTINCT over one grouped column, the same
	// functions with OVER, in both orders) - evaluating one item never changes what the next one reads
	{
		p, err := sut.NewProc(dir, nil)
		if err != nil {
			core.Fail("proc: %v", err)
		}
		writeFile(filepath.Join(dir, "g.csv"), "id,k,v\n1,a,1\n2,a,1\n3,a,2\n4,b,3\n5,b,3\n6,b,3\n7,c,\n8,c,5\n9,c,5\n10,a,2\n")
		aggs := []string{"COUNT(DISTINCT v)", "SUM(v)", "COUNT(v)", "LISTAGG(v, ',')", "SUM(DISTINCT v)", "AVG(v)", "MEDIAN(v)", "MAX(v)", "COUNT(*)",
			"LISTAGG(DISTINCT v, ',')", "MEDIAN(DISTINCT v)", "JSON_AGG(v)", "AVG(DISTINCT v)", "MIN(DISTINCT v)"}
		forms := []struct{ name, sel, tail string }{
			{"group", "SELECT k, %s FROM g", " GROUP BY k"},
			{"all", "SELECT %s FROM g", ""},
			{"over", "SELECT id, %s FROM g", ""},
		}
		for _, f := range forms {
			item := func(a string) string {
				if f.name == "over" {
					if strings.HasPrefix(a, "LISTAGG") || strings.HasPrefix(a, "JSON_AGG") {
						return a + " OVER (PARTITION BY k ORDER BY id)"
					}
					return a + " OVER (PARTITION BY k)"
				}
				return a
			}
			alone := map[string][]string{}
			for _, a := range aggs {
				rows, e := rowsOf(p, fmt.Sprintf(f.sel, item(a)+" AS x")+f.tail+";")
				if e != "" {
					continue // not available in this form (e.g. DISTINCT with OVER)
				}
				alone[a] = rows
			}
			for _, a := range aggs {
				for _, b := range aggs {
					if a == b || alone[a] == nil || alone[b] == nil {
						continue
					}
					sql := fmt.Sprintf(f.sel, item(a)+" AS x, "+item(b)+" AS y") + f.tail
					whole, e := rowsOf(p, sql+";")
					if e != "" {
						r.Violation("reuse:select-list:"+f.name+":error:"+e, sql+" fails with "+e, map[string]interface{}{"sql": sql})
						continue
					}
					// the part with b alone: drop its leading key / id column
					pb := make([]string, len(alone[b]))
					for i, row := range alone[b] {
						if k := strings.Index(row, "|"); f.name != "all" && k >= 0 {
							pb[i] = row[k+1:]
						} else {
							pb[i] = row
						}
					}
					evs = append(evs, relEvent{SQL: sql, Sig: "reuse:select-list:" + f.name, CPU: 1, Ev: map[string]interface{}{"kind": "columns", "parts": [][]string{alone[a], pb}, "whole": whole}})
					r.Count("select_list_pairs", 1)
				}
			}
		}
		p.End()
	}
	// (7) the table read from standard input (the real binary): reader, plain read / plain, reader, plain in one run give
	// what each statement gives in a run of its own
	{
		stdin := "c1,c2,d\n1,a,2\n2,b,4\n3,a,6\n4,,8\n5,c,10\n"
		runBin := func(prog string) ([][]string, string) {
			d := r.Dir("c14stdin")
			defer os.RemoveAll(d)
			_ = os.MkdirAll(d, 0755)
			rs := sut.RunBin(sut.BinOpts{Csvq: r.Csvq, Dir: d, Args: []string{"--repository", d, "--format", "JSON", "--quiet", prog}, Stdin: stdin, Timeout: 60 * time.Second})
			if rs.Exit != 0 || rs.IsFatal() {
				return nil, fmt.Sprintf("exit %d: %s", rs.Exit, firstLine(rs.Stderr))
			}
			ts, err := sut.ParseJSONTables(rs.Stdout)
			if err != nil {
				return nil, "unparsable output"
			}
			var out [][]string
			for _, t := range ts {
				rows := []string{}
				for _, row := range t.Rows {
					var cs []string
					for _, c := range row {
						cs = append(cs, c.String())
					}
					rows = append(rows, strings.Join(cs, "|"))
				}
				out = append(out, rows)
			}
			return out, ""
		}
		pl := fill(plain, "STDIN")
		pOnly, e0 := runBin(pl + ";")
		if e0 != "" || len(pOnly) != 1 {
			core.Fail("c14 stdin: %s: %s", pl, e0)
		}
		for ri, rd := range readers {
			if strings.Contains(rd, " a JOIN ") || strings.Contains(rd, "(SELECT MAX") {
				continue
			}
			q := fill(rd, "STDIN")
			rOnly, e1 := runBin(q + ";")
			if e1 != "" || len(rOnly) != 1 {
				r.Violation("reuse:source:stdin:error", q+" fails: "+e1, map[string]interface{}{"sql": q})
				continue
			}
			for _, shape := range [][]string{{"r", "p"}, {"p", "r", "p"}, {"r", "r"}} {
				var qs []string
				var parts [][]string
				for _, k := range shape {
					if k == "r" {
						qs, parts = append(qs, q), append(parts, rOnly[0])
					} else {
						qs, parts = append(qs, pl), append(parts, pOnly[0])
					}
				}
				prog := strings.Join(qs, "; ") + ";"
				got, e := runBin(prog)
				if e != "" {
					r.Violation("reuse:source:stdin:error", prog+" fails: "+e, map[string]interface{}{"sql": prog})
					continue
				}
				var whole []string
				for _, t := range got {
					whole = append(whole, t...)
				}
				if whole == nil {
					whole = []string{}
				}
				add(fmt.Sprintf("reuse:source:stdin:reader%d", ri), prog, parts, whole)
				r.Count("stdin_programs", 1)
			}
		}
	}
	reported := map[string]bool{}
	for _, i := range validateRel(r, evs) {
		e := evs[i]
		if reported[e.Sig] {
			continue
		}
		reported[e.Sig] = true
		r.Violation(e.Sig, fmt.Sprintf("%s: the rows differ from what the parts give alone: parts %v, whole %v", e.SQL, e.Ev["parts"], e.Ev["whole"]), map[string]interface{}{"sql": e.SQL})
	}
	r.Coverage["source_reader_events"] = len(evs)
}
