package props

import (
	"encoding/json"
	"fmt"
	"strconv"
	"strings"
	"time"

	"verifharness/internal/core"
	"verifharness/internal/sut"
)

// ---------------------------------------------------------------------------
// spec/Expr.tla: nested value expressions.  TLC builds expression trees bottom-up and carries the value of
// every node along; the harness renders each tree as text in three styles and has csvq evaluate it (C06) and
// print / re-parse / re-evaluate it (C18).
// ---------------------------------------------------------------------------

type exprNode struct {
	Cmp string    `json:"cmp"`
	W   string    `json:"w"`
	Neg bool      `json:"neg"`
	Op  string    `json:"op"`
	I   int       `json:"i"`
	L   *exprNode `json:"l"`
	R   *exprNode `json:"r"`
	R2  *exprNode `json:"r2"`
	C   *exprNode `json:"c"`
}

type exprCase struct {
	E   *exprNode `json:"e"`
	Ty  string    `json:"ty"`
	Val string    `json:"val"`
}

// binding strength after the manual's operator precedence table (higher binds tighter)
func exprPrec(n *exprNode) int {
	switch n.Op {
	case "lit":
		if n.I < 0 {
			return 9
		}
		return 10
	case "null", "paren", "case":
		return 10
	case "neg":
		return 9
	case "*", "%":
		return 8
	case "+", "-":
		return 7
	case "=", "<>", "<", "<=", ">", ">=", "isnull", "isnotnull", "between", "notbetween", "in", "notin", "any", "all", "ister", "anyempty", "allempty", "inempty", "notinempty":
		return 5
	case "NOT":
		return 4
	case "AND":
		return 3
	case "OR":
		return 2
	}
	core.Fail("expr: unknown operator %q", n.Op)
	return 0
}

// render: style "full" puts every compound operand in parentheses, "min" only where the precedence table and
// left-to-right associativity require it.
func exprText(n *exprNode, style string) string {
	operand := func(c *exprNode, need int) string {
		s := exprText(c, style)
		p := exprPrec(c)
		if style == "full" {
			if p < 10 {
				return "(" + s + ")"
			}
			return s
		}
		if p < need {
			return "(" + s + ")"
		}
		return s
	}
	switch n.Op {
	case "lit":
		return strconv.Itoa(n.I)
	case "null":
		return "NULL"
	case "paren":
		return "(" + exprText(n.L, style) + ")"
	case "neg":
		s := operand(n.L, 9)
		if strings.HasPrefix(s, "-") {
			s = "(" + s + ")" // "--" would start a comment
		}
		return "-" + s
	case "*", "%", "+", "-", "AND", "OR":
		p := exprPrec(n)
		return operand(n.L, p) + " " + n.Op + " " + operand(n.R, p+1)
	case "=", "<>", "<", "<=", ">", ">=":
		return operand(n.L, 6) + " " + n.Op + " " + operand(n.R, 6)
	case "isnull":
		return operand(n.L, 6) + " IS NULL"
	case "isnotnull":
		return operand(n.L, 6) + " IS NOT NULL"
	case "between", "notbetween":
		kw := " BETWEEN "
		if n.Op == "notbetween" {
			kw = " NOT BETWEEN "
		}
		return operand(n.L, 6) + kw + operand(n.R, 6) + " AND " + operand(n.R2, 6)
	case "in", "notin":
		kw := " IN ("
		if n.Op == "notin" {
			kw = " NOT IN ("
		}
		return operand(n.L, 6) + kw + exprText(n.R, style) + ", " + exprText(n.R2, style) + ")"
	case "any", "all":
		return operand(n.L, 6) + " " + n.Cmp + " " + strings.ToUpper(n.Op) + " (SELECT " + exprText(n.R, style) + " UNION ALL SELECT " + exprText(n.R2, style) + ")"
	case "anyempty", "allempty":
		return operand(n.L, 6) + " " + n.Cmp + " " + strings.ToUpper(strings.TrimSuffix(n.Op, "empty")) + " (SELECT 1 WHERE FALSE)"
	case "inempty":
		return operand(n.L, 6) + " IN (SELECT 1 WHERE 1 = 0)"
	case "notinempty":
		return operand(n.L, 6) + " NOT IN (SELECT 1 WHERE 1 = 0)"
	case "ister":
		w := map[string]string{"T": "TRUE", "F": "FALSE", "U": "UNKNOWN"}[n.W]
		if n.Neg {
			w = "NOT " + w
		}
		// IS binds like a comparison (non-associative): a comparison operand needs parentheses
		return operand(n.L, 6) + " IS " + w
	case "NOT":
		return "NOT " + operand(n.L, 4)
	case "case":
		return "CASE WHEN " + exprText(n.C, style) + " THEN " + exprText(n.L, style) + " ELSE " + exprText(n.R, style) + " END"
	}
	core.Fail("expr: unknown operator %q", n.Op)
	return ""
}

func exprShape(n *exprNode, depth int) string {
	if n == nil || depth == 0 {
		return ""
	}
	s := n.Op
	var kids []string
	for _, c := range []*exprNode{n.C, n.L, n.R, n.R2} {
		if c != nil && c.Op != "lit" && c.Op != "null" {
			kids = append(kids, exprShape(c, depth-1))
		}
	}
	if len(kids) > 0 && depth > 1 {
		s += "[" + strings.Join(kids, ",") + "]"
	}
	return s
}

// exprCases runs the generator (ExprGen.cfg) and returns distinct trees.
func exprCases(r *core.Run, nsim int, seed int64) []exprCase {
	var out []exprCase
	r.RunTLC(core.TLCOpts{Module: "Expr", Cfg: "ExprGen.cfg", Workers: 1, Simulate: fmt.Sprintf("num=%d", nsim), Depth: 14, Seed: seed, Timeout: 15 * time.Minute,
		OnTrace: func(raw json.RawMessage) {
			if !r.Distinct("expr:" + string(raw)) {
				return
			}
			var c exprCase
			if err := json.Unmarshal(raw, &c); err != nil || c.E == nil {
				core.Fail("bad expression from TLC: %v %s", err, raw)
			}
			out = append(out, c)
		}})
	return out
}

// exprExpected: how csvq shows the specification's value in JSON output
func exprShown(c sut.Cell) string {
	switch {
	case c.Null:
		return "NULL/U"
	case c.Text == "true":
		return "T"
	case c.Text == "false":
		return "F"
	}
	return c.Text
}

func exprMatches(val, ty, shown string) bool {
	if val == "NULL" || val == "U" {
		return shown == "NULL/U"
	}
	return shown == val
}

// checkExprValues evaluates every tree in the three styles; returns signature -> description of the first mismatch.
func checkExprValues(r *core.Run, cases []exprCase) {
	type res struct{ sig, what string }
	results := make([]res, len(cases))
	nw := 8
	chunk := (len(cases) + nw - 1) / nw
	core.Parallel(nw, nw, func(w int) {
		p, err := sut.NewProc(r.Dir(fmt.Sprintf("ex%d", w)), nil)
		if err != nil {
			core.Fail("proc: %v", err)
		}
		defer p.End()
		for i := w * chunk; i < (w+1)*chunk && i < len(cases); i++ {
			c := cases[i]
			for _, style := range []string{"full", "min", "wrapped"} {
				var text string
				if style == "wrapped" {
					text = "(" + exprText(c.E, "full") + ")"
				} else {
					text = exprText(c.E, style)
				}
				cells, e := evalRow(p, "SELECT "+text+" AS r;")
				if e != "" {
					results[i] = res{"expr:eval-error:" + e + ":" + style + ":" + exprShape(c.E, 1), fmt.Sprintf("SELECT %s fails: %s (specification: %s)", text, e, c.Val)}
					break
				}
				if got := exprShown(cells[0]); !exprMatches(c.Val, c.Ty, got) {
					results[i] = res{"expr:value:" + style + ":" + exprShape(c.E, 2), fmt.Sprintf("SELECT %s gives %s, specification %s", text, got, c.Val)}
					break
				}
			}
		}
	})
	reported := map[string]bool{}
	for i, x := range results {
		r.Count("expr_trees_"+cases[i].E.Op, 1)
		if x.sig == "" || reported[x.sig] {
			continue
		}
		reported[x.sig] = true
		r.Violation(x.sig, x.what, map[string]interface{}{"tree": cases[i].E, "value": cases[i].Val})
	}
	r.Coverage["expression_trees"] = len(cases)
}
