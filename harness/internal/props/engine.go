package props

import (
	"encoding/json"
	"fmt"
	"os"
	"strings"
	"sync/atomic"
	"time"

	"verifharness/internal/core"
	"verifharness/internal/sut"
)

// ---------------------------------------------------------------------------
// Generic engine for the "action list" specifications (Cursor, Scope, Txn, ...):
// a specification whose Next is  \E a \in Actions : Do(a)  and whose result of each step is the
// variable out = [k, e, vals].
//
//  (A) TLC simulates <Module>Gen: behaviours = [init, {a, exp}...]; each is executed on the real
//      csvq (in-process, one transaction, interactive style) and out is compared after every step.
//  (B) the harness draws longer random histories itself, executes them, logs {action + obs} as
//      NDJSON and TLC validates them with <Module>Trace (Do(e) /\ out' = e.obs).
// ---------------------------------------------------------------------------

type Out struct {
	K    string   `json:"k"`
	E    string   `json:"e"`
	Vals []string `json:"vals"`
}

func (o Out) String() string { return fmt.Sprintf("%s/%s/%v", o.K, o.E, o.Vals) }

func sameOut(a, b Out) bool {
	if a.K != b.K || a.E != b.E || len(a.Vals) != len(b.Vals) {
		return false
	}
	for i := range a.Vals {
		if a.Vals[i] != b.Vals[i] {
			return false
		}
	}
	return true
}

type Action = map[string]interface{}

type ActionSpec struct {
	ID        string
	Module    string // e.g. "Cursor": uses CursorMC.cfg (module CursorMC), CursorGen.cfg, CursorTrace.cfg
	MCCfgs    []string
	MCThor    []string
	GenCfgs   []string
	NSim      [2]int // quick, thorough
	NRand     [2]int
	Flags     map[string]interface{}
	Setup     func(dir string, init Action) []string                // writes files, returns preamble statements
	Exec      func(p *sut.Proc, a Action) Out                       // executes one action, returns the observation
	Random    func(r *core.Run, k int) (init Action, acts []Action) // direction (B) history number k
	Sig       func(a Action, exp, obs Out) string                   // structural signature of a mismatch
	Assume    []string
	MCWorkers int
}

func actName(a Action) string {
	s, _ := a["act"].(string)
	return s
}

// runHistory executes init + actions on a fresh real transaction and returns the observations.
func runHistory(r *core.Run, sp *ActionSpec, init Action, acts []Action) []Out {
	dir := r.Dir(fmt.Sprintf("h.%d", time.Now().UnixNano()))
	defer os.RemoveAll(dir)
	pre := sp.Setup(dir, init)
	p, err := sut.NewProc(dir, sp.Flags)
	if err != nil {
		core.Fail("new proc: %v", err)
	}
	defer p.End()
	for _, s := range pre {
		if res := p.Exec(s); res.Err != "" {
			core.Fail("preamble %q failed: %s", s, res.Err)
		}
	}
	outs := make([]Out, len(acts))
	for i, a := range acts {
		outs[i] = sp.Exec(p, a)
	}
	return outs
}

func runActionCheck(r *core.Run, sp *ActionSpec) {
	r.Assume = append([]string{
		"TLC explores the specification exhaustively only within the constants of the MC configuration",
		"the real code is driven in-process through query.Processor, statement by statement, like the interactive shell",
	}, sp.Assume...)
	tier := 0
	if r.Thorough {
		tier = 1
	}
	// ---- model checking ----
	states, trans := 0, 0
	cfgs := sp.MCCfgs
	if r.Thorough {
		cfgs = append(cfgs, sp.MCThor...)
	}
	w := sp.MCWorkers
	if w == 0 {
		w = 8
	}
	for _, c := range cfgs {
		m := r.MustHold(core.TLCOpts{Module: sp.Module + "MC", Cfg: c, Workers: w, Timeout: 40 * time.Minute})
		states += m.Distinct
		trans += m.Generated
	}
	r.Coverage["states"] = states
	r.Coverage["transitions"] = trans
	r.Coverage["mc_configs"] = cfgs
	validated := 0

	// ---- (A) replay of TLC behaviours ----
	type beh struct {
		init Action
		acts []Action
		exps []Out
	}
	var behs []beh
	for gi, gc := range sp.GenCfgs {
		r.RunTLC(core.TLCOpts{Module: sp.Module + "Gen", Cfg: gc, Workers: 1, Simulate: fmt.Sprintf("num=%d", sp.NSim[tier]), Depth: 100,
			Seed: r.Seed*13 + int64(gi), Timeout: 20 * time.Minute,
			OnTrace: func(raw json.RawMessage) {
				if !r.Distinct("beh:" + string(raw)) {
					return
				}
				var steps []json.RawMessage
				if err := json.Unmarshal(raw, &steps); err != nil || len(steps) < 1 {
					core.Fail("bad behaviour: %v", err)
				}
				var b beh
				if err := json.Unmarshal(steps[0], &b.init); err != nil {
					core.Fail("bad init: %v", err)
				}
				for _, st := range steps[1:] {
					var x struct {
						A   Action `json:"a"`
						Exp Out    `json:"exp"`
					}
					if err := json.Unmarshal(st, &x); err != nil {
						core.Fail("bad step: %v: %s", err, st)
					}
					b.acts = append(b.acts, x.A)
					b.exps = append(b.exps, x.Exp)
				}
				behs = append(behs, b)
			}})
	}
	type mism struct {
		b   beh
		i   int
		obs Out
	}
	results := make([]*mism, len(behs))
	var nmism int32
	core.Parallel(len(behs), 8, func(i int) {
		if atomic.LoadInt32(&nmism) > 60 {
			return // the code no longer follows the specification: the remaining replays add nothing (and may each wait for locks)
		}
		b := behs[i]
		obs := runHistory(r, sp, b.init, b.acts)
		for k := range obs {
			if !sameOut(obs[k], b.exps[k]) {
				results[i] = &mism{b: b, i: k, obs: obs[k]}
				atomic.AddInt32(&nmism, 1)
				return
			}
		}
	})
	if os.Getenv("VERIF_DEBUG") != "" {
		A := func(act, t string, k int) Action { return Action{"act": act, "t": t, "k": k, "x": 0, "u": ""} }
		if len(behs) > 0 {
			hs := []Action{A("select", "f1", 0), A("env", "f1", 0), A("update", "f1", 0), A("select", "f1", 0)}
			fmt.Fprintf(os.Stderr, "DEBUG fixed history: %v\n", runHistory(r, sp, behs[0].init, hs))
		}
		np := 0
		for _, b := range behs {
			st := 0
			for k, a := range b.acts {
				n, t := actName(a), aStr(a, "t")
				switch {
				case st == 0 && n == "select" && t == "f1":
					st = 1
				case st == 1 && n == "env" && t == "f1" && b.exps[k].K == "ok":
					st = 2
				case st == 2 && n == "update" && t == "f1":
					st = 3
					if np < 3 {
						fmt.Fprintf(os.Stderr, "DEBUG pattern at %d: exp %s acts %s\n", k, b.exps[k], core.JSON(b.acts[:k+1]))
					}
				case n == "commit" || n == "rollback":
					st = 0
				}
			}
			if st == 3 {
				np++
			}
		}
		fmt.Fprintf(os.Stderr, "DEBUG behaviours with select-env-update on f1: %d\n", np)
		ne, nlen := 0, map[int]int{}
		for _, b := range behs {
			nlen[len(b.acts)]++
			for k, a := range b.acts {
				if actName(a) == "env" && b.exps[k].K == "ok" {
					ne++
					break
				}
			}
		}
		fmt.Fprintf(os.Stderr, "DEBUG behaviours with a successful env: %d; lengths %v\n", ne, nlen)
		nm := 0
		for _, m := range results {
			if m != nil {
				nm++
				fmt.Fprintf(os.Stderr, "DEBUG mismatch step %d %s exp %s obs %s\n", m.i+1, core.JSON(m.b.acts[m.i]), m.b.exps[m.i], m.obs)
			}
		}
		fmt.Fprintf(os.Stderr, "DEBUG behaviours %d mismatches %d stopped-early %v\n", len(behs), nm, atomic.LoadInt32(&nmism) > 60)
	}
	reported := map[string]bool{}
	unrep := 0
	for i, m := range results {
		validated++
		r.Count("tlc_behaviours_replayed", 1)
		r.Count("replayed_steps", len(behs[i].acts))
		for k, a := range behs[i].acts {
			r.Count("step:"+actName(a)+":"+behs[i].exps[k].K, 1)
		}
		if i == 0 {
			r.Sample(map[string]interface{}{"origin": "tlc", "init": behs[i].init, "steps": sampleSteps(behs[i].acts, behs[i].exps)})
		}
		if m == nil {
			continue
		}
		// one report per signature: do not re-run the thousands of behaviours that show the same thing
		sig0 := sp.Sig(m.b.acts[m.i], m.b.exps[m.i], m.obs)
		if reported[sig0] {
			continue
		}
		reported[sig0] = true
		// reproduce (a result that changes from run to run may need several attempts; the mismatch that was
		// observed is a real execution either way, but it is only reported when it can be shown again)
		var obs2 []Out
		for try := 0; try < 12; try++ {
			obs2 = runHistory(r, sp, m.b.init, m.b.acts)
			if !sameOut(obs2[m.i], m.b.exps[m.i]) {
				break
			}
		}
		if sameOut(obs2[m.i], m.b.exps[m.i]) {
			// a real execution disagreed with the specification once and agrees on 12 re-runs of the same history:
			// not a verdict (nothing to replay); recorded so that it is not lost
			unrep++
			note := fmt.Sprintf("step %d %s: specification %s, csvq once %s, then as specified; history %s", m.i+1, core.JSON(m.b.acts[m.i]), m.b.exps[m.i], m.obs, core.JSON(m.b.acts[:m.i+1]))
			fmt.Printf("NOTE property=%s unreproduced mismatch: %s\n", sp.ID, note)
			if unrep == 1 {
				r.Coverage["unreproduced_mismatch_first"] = note
			}
			r.Coverage["unreproduced_mismatches"] = unrep
			lim := 5
			if r.Thorough {
				lim = 25 // (the thorough tier replays ten times as many behaviours, for an hour: more occasions for a loaded machine to time out once)
			}
			if unrep > lim {
				core.Fail("%s: %d mismatches that do not reproduce: the run is not deterministic enough to judge", sp.ID, unrep)
			}
			delete(reported, sig0)
			continue
		}
		sig := sp.Sig(m.b.acts[m.i], m.b.exps[m.i], obs2[m.i])
		if sig != sig0 && reported[sig] {
			continue
		}
		reported[sig] = true
		r.Violation(sig, fmt.Sprintf("step %d %s: specification %s, csvq %s\nhistory: %s", m.i+1, core.JSON(m.b.acts[m.i]), m.b.exps[m.i], obs2[m.i], core.JSON(m.b.acts[:m.i+1])),
			map[string]interface{}{"init": m.b.init, "actions": m.b.acts[:m.i+1], "expected": m.b.exps[m.i], "observed": obs2[m.i]})
	}

	// ---- (B) random histories validated by TLC ----
	if sp.Random != nil && sp.NRand[tier] > 0 {
		n := sp.NRand[tier]
		type hist struct {
			init Action
			acts []Action
			obs  []Out
		}
		hs := make([]hist, n)
		for k := 0; k < n; k++ {
			hs[k].init, hs[k].acts = sp.Random(r, k)
		}
		core.Parallel(n, 8, func(k int) {
			hs[k].obs = runHistory(r, sp, hs[k].init, hs[k].acts)
		})
		for _, h := range hs {
			for k, a := range h.acts {
				r.Count("random-step:"+actName(a)+":"+h.obs[k].K, 1)
			}
		}
		rest := hs
		for rounds := 0; len(rest) > 0 && rounds < 6; rounds++ {
			var b strings.Builder
			for _, h := range rest {
				in := Action{}
				for k, v := range h.init {
					in[k] = v
				}
				in["act"] = "init"
				b.WriteString(core.JSON(in))
				b.WriteByte('\n')
				for i, a := range h.acts {
					e := Action{}
					for k, v := range a {
						e[k] = v
					}
					e["obs"] = h.obs[i]
					b.WriteString(core.JSON(e))
					b.WriteByte('\n')
				}
			}
			res := r.RunTLC(core.TLCOpts{Module: sp.Module + "Trace", Cfg: sp.Module + "Trace.cfg", Workers: 1,
				Texts: map[string]string{"trace.ndjson": b.String()}, Timeout: 20 * time.Minute, KeepOut: true})
			if res.OK {
				validated += len(rest)
				r.Count("random_histories_validated", len(rest))
				break
			}
			if res.Violated != "" && res.Violated != "TraceAccepted" {
				core.Fail("%sTrace: invariant %s fails on a recorded history (specification problem): %s", sp.Module, res.Violated, res.ErrorText)
			}
			consumed := res.Depth - 1
			pos := 0
			hit := -1
			for k, h := range rest {
				nl := 1 + len(h.acts)
				if consumed < pos+nl {
					hit = k
					idx := consumed - pos - 1
					if idx < 0 || idx >= len(h.acts) {
						core.Fail("%sTrace rejected an init line (line %d)", sp.Module, consumed)
					}
					// what does the spec say? ask the generator side: re-run is deterministic on the real code
					obs2 := runHistory(r, sp, h.init, h.acts)
					if !sameOut(obs2[idx], h.obs[idx]) {
						core.Fail("%s: observation at step %d of a random history is not reproducible", sp.ID, idx)
					}
					sig := sp.Sig(h.acts[idx], Out{K: "?"}, h.obs[idx])
					if !reported[sig] {
						reported[sig] = true
						r.Violation(sig, fmt.Sprintf("random history, step %d %s: csvq answered %s, which the specification does not allow\nhistory tail: %s", idx+1, core.JSON(h.acts[idx]), h.obs[idx], core.JSON(tailActs(h.acts, idx))),
							map[string]interface{}{"init": h.init, "actions": h.acts[:idx+1], "observed": h.obs[idx]})
					}
					break
				}
				pos += nl
			}
			if hit < 0 {
				core.Fail("%sTrace failed but no history located (depth %d): %s", sp.Module, res.Depth, res.ErrorText)
			}
			validated += hit
			r.Count("random_histories_validated", hit)
			rest = rest[hit+1:]
		}
		if len(hs) > 0 {
			r.Sample(map[string]interface{}{"origin": "random", "init": hs[0].init, "steps": sampleSteps(hs[0].acts, hs[0].obs)})
		}
		// the binding, demonstrated: one recorded answer of a history is changed; the trace specification must reject it
		for _, h := range hs {
			ci := -1
			for i := len(h.obs) - 1; i >= 0; i-- {
				if h.obs[i].K == "val" && len(h.obs[i].Vals) > 0 {
					ci = i
					break
				}
			}
			if ci < 0 {
				continue
			}
			var b strings.Builder
			in := Action{}
			for k, v := range h.init {
				in[k] = v
			}
			in["act"] = "init"
			b.WriteString(core.JSON(in))
			b.WriteByte('\n')
			for i, a := range h.acts {
				e := Action{}
				for k, v := range a {
					e[k] = v
				}
				o := h.obs[i]
				if i == ci {
					o = Out{K: o.K, E: o.E, Vals: append([]string{o.Vals[0] + "9"}, o.Vals[1:]...)}
				}
				e["obs"] = o
				b.WriteString(core.JSON(e))
				b.WriteByte('\n')
			}
			res := r.RunTLC(core.TLCOpts{Module: sp.Module + "Trace", Cfg: sp.Module + "Trace.cfg", Workers: 1,
				Texts: map[string]string{"trace.ndjson": b.String()}, Timeout: 20 * time.Minute, KeepOut: true})
			if res.OK {
				core.Fail("%sTrace accepts a history whose answer at step %d was changed: the binding is vacuous", sp.Module, ci+1)
			}
			if res.Depth-1 != ci+1 {
				continue // this history is rejected earlier for a reason of its own (a reported violation): take another one
			}
			r.Count("binding_selftest_corrupted_history_rejected", 1)
			break
		}
	}
	r.Coverage["traces_validated_against_impl"] = validated
	r.Coverage["exhaustive"] = false
}

func tailActs(a []Action, idx int) []Action {
	from := idx - 8
	if from < 0 {
		from = 0
	}
	return a[from : idx+1]
}

func sampleSteps(acts []Action, outs []Out) []string {
	var l []string
	for i := range acts {
		if i >= 16 {
			break
		}
		l = append(l, fmt.Sprintf("%s -> %s", core.JSON(acts[i]), outs[i]))
	}
	return l
}

// ---- helpers shared by the renderers ----

func aStr(a Action, k string) string {
	s, _ := a[k].(string)
	return s
}

func aInt(a Action, k string) int {
	switch v := a[k].(type) {
	case float64:
		return int(v)
	case int:
		return v
	case json.Number:
		i, _ := v.Int64()
		return int(i)
	}
	return 0
}

// printed returns the lines a PRINT statement wrote, with string quotes removed.
func printed(out string) []string {
	var l []string
	for _, s := range strings.Split(strings.TrimRight(out, "\n"), "\n") {
		if s == "" {
			continue
		}
		l = append(l, unquotePrinted(s))
	}
	return l
}

func unquotePrinted(s string) string {
	s = strings.TrimSpace(s)
	if len(s) >= 2 && (s[0] == '\'' || s[0] == '"') && s[len(s)-1] == s[0] {
		return s[1 : len(s)-1]
	}
	return s
}

func writeFile(path string, content string) {
	if err := os.WriteFile(path, []byte(content), 0644); err != nil {
		core.Fail("write %s: %v", path, err)
	}
}
