package props

import (
	"crypto/sha1"
	"fmt"
	"os"
	"path/filepath"
	"sort"
	"strings"
	"time"

	"verifharness/internal/core"
	"verifharness/internal/sut"
)

// C12 - results are a function of the inputs: independent of --cpu, scheduling and run.
// Parallel.tla: TLC explores every interleaving of the workers for each merge discipline the engine uses and
// shows which ones are schedule-independent.  The binding is differential: the same program on the same files
// is run by the real binary for several --cpu values and repeated runs; TLC validates that every program has
// exactly one digest (ParallelTrace).

func init() {
	Registry["C12"] = &Check{Level: "model_checking", Run: runC12}
}

func runC12(r *core.Run) {
	r.Assume = []string{
		"schedules are not forced: scheduling-dependence is looked for by repetition (runs per cpu value) and by varying --cpu from 1 to 16 at table sizes straddling the 80-rows-per-worker thresholds",
		"programs do not call RAND/NOW-like functions and do not assign variables inside queries",
	}
	states, trans := 0, 0
	for _, d := range []string{"slot", "concat", "discoverFirstIndex", "uneven"} {
		m := r.MustHold(core.TLCOpts{Module: "ParallelMC", Cfg: "ParallelMC_" + d + ".cfg", Workers: 4})
		states += m.Distinct
		trans += m.Generated
	}
	// the discipline "shared discovery list in arrival order" is schedule-dependent: TLC must refute it
	// (vacuity check of Deterministic, and the reason why csvq orders group keys by first record index)
	if ab := r.RunTLC(core.TLCOpts{Module: "ParallelMC", Cfg: "ParallelMC_discover.cfg", Workers: 4, KeepOut: true}); ab.Violated != "Deterministic" {
		core.Fail("the arrival-order discipline should be refuted by TLC, got %q", ab.Violated)
	}
	r.Coverage["states"] = states
	r.Coverage["transitions"] = trans

	sizes := []int{159, 160, 161, 330, 400}
	cpus := []int{1, 2, 3, 4, 8, 16}
	runs := 2
	if r.Thorough {
		sizes = []int{79, 80, 81, 159, 160, 161, 239, 240, 241, 320, 321, 400, 801, 1300}
		cpus = []int{1, 2, 3, 4, 5, 6, 7, 8, 12, 16}
		runs = 4
	}
	programs := []struct{ name, sql string }{
		{"filter", "SELECT * FROM t WHERE a > 1 OR b = 'a';"},
		{"project", "SELECT id, a + 1 AS x, UPPER(b) AS y FROM t;"},
		{"group", "SELECT k, COUNT(*) AS n, SUM(a) AS s, MIN(b) AS mn FROM t GROUP BY k;"},
		{"group2", "SELECT b, k, COUNT(*) AS n FROM t GROUP BY b, k;"},
		{"listagg", "SELECT k, LISTAGG(id, ',') AS l FROM t GROUP BY k;"},
		{"distinct", "SELECT DISTINCT k, b FROM t;"},
		{"order-ties", "SELECT id, k FROM t ORDER BY k;"},
		{"order-limit", "SELECT id, k, b FROM t ORDER BY b DESC, k LIMIT 25 PERCENT;"},
		{"join", "SELECT t.id, u.id AS uid FROM t JOIN u ON t.k = u.k;"},
		{"join-small-big", "SELECT u.id AS uid, t.id FROM u JOIN t ON t.k = u.k;"},
		{"left", "SELECT t.id, u.id AS uid FROM t LEFT JOIN u ON t.a = u.a;"},
		{"right", "SELECT t.id, u.id AS uid FROM t RIGHT JOIN u ON t.a = u.a;"},
		{"full", "SELECT t.id, u.id AS uid FROM t FULL JOIN u ON t.a = u.a AND t.k = u.k;"},
		{"cross", "SELECT t.id, u.id AS uid FROM u CROSS JOIN t WHERE t.id < 20;"},
		{"using", "SELECT * FROM u LEFT JOIN t USING (k);"},
		{"union", "SELECT k, b FROM t UNION SELECT k, b FROM u;"},
		{"except", "SELECT k FROM t EXCEPT SELECT k FROM u;"},
		{"analytic", "SELECT id, RANK() OVER (PARTITION BY k ORDER BY a) AS r, SUM(a) OVER (PARTITION BY b) AS s FROM t;"},
		{"analytic-nested", "SELECT SUM(ROW_NUMBER() OVER (ORDER BY id)) OVER () AS s, MAX(RANK() OVER (ORDER BY k, id)) OVER () AS r, id, MIN(DENSE_RANK() OVER (ORDER BY k)) OVER () AS r2 FROM t;"},
		// fractions that have no exact binary form: the result of a float sum depends on the order of the additions,
		// so any per-worker partial sums show in the last digits
		{"sum-frac", "SELECT SUM(f) AS s, AVG(f) AS m, VAR(f) AS v, STDEV(f) AS d, MEDIAN(f) AS md FROM t;"},
		{"group-frac", "SELECT k, SUM(f) AS s, AVG(f) AS m, VARP(f) AS v FROM t GROUP BY k;"},
		{"group-frac2", "SELECT b, SUM(f * 1.1) AS s, COUNT(DISTINCT f) AS c FROM t GROUP BY b HAVING SUM(f) > 0;"},
		{"analytic-frac", "SELECT id, SUM(f) OVER (PARTITION BY k) AS s, AVG(f) OVER (ORDER BY id) AS m, SUM(f) OVER () AS tot FROM t;"},
		{"update-frac", "UPDATE t SET f = f * 1.07 WHERE k > 1; COMMIT; SELECT SUM(f) FROM t;"},
		// two declared datetime notations that overlap (day first, month first): which one reads a text is decided per value, in the
		// declared order - not by what another worker's previous value happened to match
		{"dt-formats", "SET @@DATETIME_FORMAT TO '[\"%d/%m/%Y\", \"%m/%d/%Y\"]'; SELECT id, d, DATETIME_FORMAT(DATETIME(d), '%Y-%m-%d') AS x, MONTH(d) AS m FROM t;"},
		{"dt-order", "SET @@DATETIME_FORMAT TO '[\"%d/%m/%Y\", \"%m/%d/%Y\"]'; SELECT id, d FROM t WHERE d > '01/01/2003' ORDER BY d, id;"},
		{"dt-group", "SET @@DATETIME_FORMAT TO '[\"%d/%m/%Y\", \"%m/%d/%Y\"]'; SELECT d, COUNT(*) AS n, MIN(id) AS i FROM t GROUP BY d;"},
		// arguments of analytic functions that refer to columns (the default of LAG / LEAD), several partitions per worker
		{"analytic-colarg", "SELECT id, k, LAG(a, 1, id) OVER (PARTITION BY k, b ORDER BY id) AS l, LEAD(id, 1, a) OVER (PARTITION BY k, b ORDER BY id) AS ld, LAG(b, 2, b) OVER (PARTITION BY k ORDER BY id) AS lb FROM t;"},
		// a lateral sub-query is evaluated for every left record by the worker that has the record
		{"lateral-cross", "SELECT t.id, t.k, s.uid FROM t CROSS JOIN LATERAL (SELECT u.id AS uid FROM u WHERE u.k = t.k) s;"},
		{"lateral-left", "SELECT t.id, s.c, s.m FROM t LEFT JOIN LATERAL (SELECT COUNT(*) AS c, MAX(u.id) AS m FROM u WHERE u.a = t.a) s ON TRUE;"},
		{"correlated", "SELECT id, (SELECT COUNT(*) FROM u WHERE u.k = t.k) AS c, EXISTS (SELECT 1 FROM u WHERE u.a = t.a) AS e FROM t;"},
		{"subquery", "SELECT id FROM t WHERE k IN (SELECT k FROM u WHERE a > 0);"},
		{"insert-select", "CREATE TABLE `w.csv` (id, k, n); INSERT INTO `w.csv` SELECT t.id, t.k, u.id FROM t JOIN u ON t.k = u.k; COMMIT;"},
		{"update", "UPDATE t SET a = a + 1 WHERE k = 1; DELETE FROM t WHERE b IS NULL; COMMIT;"},
		{"replace", "REPLACE INTO t (id, k) USING (id) VALUES (3, 9), (5000, 1), (5001, 2), (4, 8); COMMIT;"},
		{"update-join", "UPDATE t SET t.b = u.b FROM t JOIN u ON t.id = u.id; COMMIT;"},
	}
	type job struct {
		prog string
		sql  string
		n    int
		cpu  int
		run  int
	}
	var jobs []job
	tables := map[int][2]*rtable{}
	for _, n := range sizes {
		t := genTable(r, "t", []string{"id", "a", "b", "k", "f", "d"}, []colGen{genID, genNum(3), genText, genInt(5), genFrac, genDateAmb}, n)
		u := genTable(r, "u", []string{"id", "a", "b", "k"}, []colGen{genID, genNum(3), genText, genInt(5)}, 12)
		tables[n] = [2]*rtable{t, u}
		for _, p := range programs {
			for _, c := range cpus {
				for k := 0; k < runs; k++ {
					jobs = append(jobs, job{prog: fmt.Sprintf("%s@%d", p.name, n), sql: p.sql, n: n, cpu: c, run: k})
				}
			}
		}
	}
	digests := make([]string, len(jobs))
	outs := make([]string, len(jobs))
	core.Parallel(len(jobs), 6, func(i int) {
		j := jobs[i]
		dir := r.Dir(fmt.Sprintf("c12.%d", i))
		defer os.RemoveAll(dir)
		repo := filepath.Join(dir, "repo")
		_ = os.MkdirAll(repo, 0755)
		tables[j.n][0].write(repo)
		tables[j.n][1].write(repo)
		rs := sut.RunBin(sut.BinOpts{Csvq: r.Csvq, Dir: dir, Args: []string{"--repository", repo, "--format", "CSV", "--quiet", "--cpu", fmt.Sprint(j.cpu), j.sql}, Timeout: 120 * time.Second})
		h := sha1.New()
		fmt.Fprintf(h, "exit=%d\n%s\n", rs.Exit, rs.Stdout)
		snap := sut.Snapshot(repo)
		var names []string
		for n := range snap {
			names = append(names, n)
		}
		sort.Strings(names)
		for _, n := range names {
			fmt.Fprintf(h, "file %s\n%s\n", n, snap[n])
		}
		digests[i] = fmt.Sprintf("%x", h.Sum(nil))[:16]
		if rs.IsFatal() {
			digests[i] = "fatal:" + firstLine(rs.Stderr)
		}
		outs[i] = rs.Stdout
	})
	var lines []string
	for i, j := range jobs {
		lines = append(lines, core.JSON(map[string]interface{}{"prog": j.prog, "cpu": j.cpu, "run": j.run, "digest": digests[i]}))
		r.Distinct(j.prog)
	}
	reported := map[string]bool{}
	rest := lines
	base := 0
	for rounds := 0; rounds < 40 && len(rest) > 0; rounds++ {
		res := r.RunTLC(core.TLCOpts{Module: "ParallelTrace", Cfg: "ParallelTrace.cfg", Workers: 1, Timeout: 10 * time.Minute, KeepOut: true,
			Texts: map[string]string{"trace.ndjson": strings.Join(rest, "\n") + "\n"}})
		if res.OK {
			break
		}
		if res.Violated != "TraceAccepted" && res.Violated != "" {
			core.Fail("ParallelTrace: %s", res.ErrorText)
		}
		idx := res.Depth - 1
		if idx < 0 || idx >= len(rest) {
			core.Fail("ParallelTrace rejected at an impossible line")
		}
		j := jobs[base+idx]
		name := j.prog[:strings.Index(j.prog, "@")]
		if !reported[name] {
			reported[name] = true
			// find the reference run to describe the difference
			ref := -1
			for k := 0; k < base+idx; k++ {
				if jobs[k].prog == j.prog {
					ref = k
					break
				}
			}
			r.Violation("cpu-dependence:"+name, fmt.Sprintf("%s on %d rows: --cpu %d (run %d) and --cpu %d (run %d) give different results or files\nfirst lines: %q vs %q", j.sql, j.n, jobs[ref].cpu, jobs[ref].run, j.cpu, j.run,
				headLines(outs[ref], 4), headLines(outs[base+idx], 4)), map[string]interface{}{"sql": j.sql, "rows": j.n, "cpu_a": jobs[ref].cpu, "cpu_b": j.cpu})
		}
		// drop all lines of this program and continue
		var keep, keepOuts []string
		var keepJobs []job
		for k := base; k < len(jobs); k++ {
			if jobs[k].prog != j.prog {
				keep = append(keep, lines[k])
				keepJobs = append(keepJobs, jobs[k])
				keepOuts = append(keepOuts, outs[k])
			}
		}
		jobs = append(jobs[:base], keepJobs...)
		lines = append(lines[:base], keep...)
		outs = append(outs[:base], keepOuts...)
		rest = lines[base:]
	}
	r.Sample(map[string]interface{}{"program": programs[2].sql, "sizes": sizes, "cpus": cpus, "runs_per_cpu": runs})
	r.Coverage["traces_validated_against_impl"] = len(digests)
	r.Coverage["programs"] = len(programs) * len(sizes)
	r.Coverage["exhaustive"] = false
}

func headLines(s string, n int) string {
	l := strings.Split(s, "\n")
	if len(l) > n {
		l = l[:n]
	}
	return strings.Join(l, "|")
}
