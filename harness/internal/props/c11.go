package props

import (
	"fmt"
	"os"
	"path/filepath"
	"strings"
	"time"

	"verifharness/internal/core"
	"verifharness/internal/sched"
	"verifharness/internal/sut"
)

// C11: every way of ending a run that the process survives - success, error, EXIT, lock timeout,
// SIGINT/SIGTERM/SIGQUIT delivered at every named hook point - must leave no control file and no
// uncommitted created table; read-only programs leave every file byte-identical.  The verdict is
// the end-of-execution clause of FileProtocolObs evaluated by TLC on the recorded execution.

const holderLock = ".f1.csv.lock"

func signalScenarios() []binScenario {
	return []binScenario{
		{Name: "ro", Tables: map[string]string{"f1.csv": rowsCSV(40, 0)}, ReadOnly: true,
			SQL: "SELECT COUNT(*) FROM `f1.csv`;\nSELECT * FROM `f1.csv` WHERE n >= 0;\n"},
		{Name: "upd", Tables: map[string]string{"f1.csv": rowsCSV(40, 0)},
			SQL: "UPDATE `f1.csv` SET n = n + 1;\nCOMMIT;\n"},
		{Name: "updauto", Tables: map[string]string{"f1.csv": rowsCSV(3, 0), "f2.csv": rowsCSV(3, 0)},
			SQL: "UPDATE `f1.csv` SET n = n + 1;\nSELECT COUNT(*) FROM `f2.csv`;\nUPDATE `f2.csv` SET n = n + 1;\n"},
		{Name: "create", Tables: map[string]string{"f1.csv": rowsCSV(3, 0)},
			SQL: "CREATE TABLE `f2.csv` (n);\nINSERT INTO `f2.csv` VALUES (0);\nUPDATE `f1.csv` SET n = n + 1;\nCOMMIT;\n"},
		{Name: "createrb", Tables: map[string]string{"f1.csv": rowsCSV(3, 0)},
			SQL: "CREATE TABLE `f2.csv` (n);\nINSERT INTO `f2.csv` VALUES (0);\nROLLBACK;\nSELECT COUNT(*) FROM `f1.csv`;\n"},
		{Name: "error", Tables: map[string]string{"f1.csv": rowsCSV(3, 0)},
			SQL: "UPDATE `f1.csv` SET n = n + 1;\nCREATE TABLE `f2.csv` (n);\nSELECT nosuch FROM `f1.csv`;\n"},
		{Name: "exit", Tables: map[string]string{"f1.csv": rowsCSV(3, 0)},
			SQL: "UPDATE `f1.csv` SET n = n + 1;\nCREATE TABLE `f2.csv` (n);\nEXIT 3;\n"},
		// COMMIT that fails after the created table could have been written: f1 cannot be encoded in Shift_JIS
		{Name: "commitfail", Tables: map[string]string{"f1.csv": rowsCSV(3, 0)},
			SQL: "CREATE TABLE `f2.csv` (n);\nINSERT INTO `f2.csv` VALUES (0);\nALTER TABLE `f1.csv` SET ENCODING TO SJIS;\nINSERT INTO `f1.csv` VALUES ('\ud55c');\nCOMMIT;\n"},
		{Name: "commitfailauto", Tables: map[string]string{"f1.csv": rowsCSV(3, 0)},
			SQL: "ALTER TABLE `f1.csv` SET ENCODING TO SJIS;\nINSERT INTO `f1.csv` VALUES ('\ud55c');\nCREATE TABLE `f2.csv` (n);\nINSERT INTO `f2.csv` VALUES (0);\n"},
		// the preload file has changed / created a table when the command line turns out to be unusable
		{Name: "preloadusage", Tables: map[string]string{"f1.csv": rowsCSV(3, 0)}, Preload: "INSERT INTO `repo/f1.csv` VALUES (0);\n",
			Args: []string{"--import-format", "nosuch"}, SQL: "SELECT 1;\n"},
		{Name: "preloadcreate", Tables: map[string]string{"f1.csv": rowsCSV(3, 0)}, Preload: "CREATE TABLE `repo/f2.csv` (n);\nINSERT INTO `repo/f2.csv` VALUES (0);\n",
			Args: []string{"--write-encoding", "nosuch"}, SQL: "SELECT 1;\n"},
		// two names that differ in letter case only: the second handler of "one" file is refused - and released, nothing else
		{Name: "casecreate", Tables: map[string]string{"f1.csv": rowsCSV(3, 0)},
			SQL: "CREATE TABLE `F1.csv` AS SELECT * FROM `f1.csv`;\n"},
		// a table whose name is so long that its lock file can be created and its read-lock file cannot (255 bytes per name):
		// the read fails with an I/O error - and leaves nothing
		{Name: "longname", Tables: map[string]string{"f1.csv": rowsCSV(3, 0), strings.Repeat("\u6f22", 80) + ".csv": rowsCSV(3, 0)},
			SQL: "UPDATE `f1.csv` SET n = n + 1;\nSELECT COUNT(*) FROM `" + strings.Repeat("\u6f22", 80) + ".csv`;\n"},
		{Name: "holder", Tables: map[string]string{"f1.csv": rowsCSV(3, 0)}, Holder: true,
			SQL: "SELECT COUNT(*) FROM `f1.csv`;\n"},
		{Name: "holderupd", Tables: map[string]string{"f1.csv": rowsCSV(3, 0), "f2.csv": rowsCSV(3, 0)}, Holder: true,
			SQL: "UPDATE `f2.csv` SET n = n + 1;\nUPDATE `f1.csv` SET n = n + 1;\nCOMMIT;\n"},
	}
}

func runSignalScenario(r *core.Run, sc binScenario, env []string) (repoSnap map[string]string, res sut.BinRes, points []pointRec) {
	if sc.Holder {
		sc.Tables = copyMap(sc.Tables)
		sc.Tables[holderLock] = ""
	}
	dir, res, points := runScenario(r, sc, env, true)
	repoSnap = sut.Snapshot(filepath.Join(dir, "repo"))
	_ = os.RemoveAll(dir)
	return
}

func copyMap(m map[string]string) map[string]string {
	c := map[string]string{}
	for k, v := range m {
		c[k] = v
	}
	return c
}

func obsLinesForBin(sc binScenario, points []pointRec, snap map[string]string) []string {
	tables := map[string]string{"f1.csv": "f1", "f2.csv": "f2"}
	in := map[string]interface{}{"a": "init", "exists": map[string]bool{"f1": sc.Tables["f1.csv"] != "", "f2": sc.Tables["f2.csv"] != ""}}
	lines := []string{core.JSON(in)}
	for _, p := range points {
		if p.Point == "tx.commit.begin" || p.Point == "tx.commit.end" {
			lines = append(lines, core.JSON(map[string]interface{}{"p": "p1", "a": "step", "pt": p.Point, "f": "-", "op": "commit", "out": "run", "ff": "", "fo": ""}))
			continue
		}
		if !modelPoints[p.Point] {
			continue
		}
		f := "-"
		if p.Point != "stmt.begin" {
			t, ok := tables[p.Base]
			if !ok {
				continue
			}
			f = t
		}
		lines = append(lines, core.JSON(map[string]interface{}{"p": "p1", "a": "step", "pt": p.Point, "f": f, "op": "?", "out": "run", "ff": "", "fo": ""}))
	}
	snap = copyMap(snap)
	if sc.Holder {
		delete(snap, holderLock) // the competing holder's lock file is not ours to remove
	}
	unchanged := true
	if sc.ReadOnly {
		if len(snap) != len(sc.Tables) {
			unchanged = false
		}
		for n, c := range sc.Tables {
			if snap[n] != c {
				unchanged = false
			}
		}
	}
	// control files of tables other than f1 / f2 (whatever their names): none may stay either
	stray := 0
	for n := range snap {
		if strings.HasPrefix(n, ".") && (strings.HasSuffix(n, ".lock") || strings.HasSuffix(n, ".rlock") || strings.HasSuffix(n, ".temp")) &&
			!strings.HasPrefix(n, ".f1.csv.") && !strings.HasPrefix(n, ".f2.csv.") {
			stray++
		}
	}
	lines = append(lines, core.JSON(map[string]interface{}{"a": "end", "dir": dirProjection2(snap, []string{"f1", "f2"}, nil), "readonly": sc.ReadOnly, "unchanged": unchanged, "stray": stray}))
	return lines
}

func runC11(r *core.Run) {
	r.Assume = []string{
		"signals are delivered at named hook points (the process signals itself and waits until the handler has cancelled the context), not at arbitrary machine instructions",
		"the signal paths are not actions of FileProtocol.tla; the model-level CleanExit invariant covers normal end, errors and lock timeouts, and the end-of-execution clause of FileProtocolObs judges every recorded run",
	}
	mc := r.MustHold(core.TLCOpts{Module: "FileProtocolMC", Cfg: "FileProtocolMC_2p1f.cfg", Workers: 8, Timeout: 15 * time.Minute})
	r.Coverage["states"] = mc.Distinct
	r.Coverage["transitions"] = mc.Generated

	type job struct {
		sc  binScenario
		env []string
		id  string
		sig string
	}
	var jobs []job
	for _, sc := range signalScenarios() {
		_, res, points := runSignalScenario(r, sc, nil)
		if res.IsFatal() {
			r.Violation("fatal-in-reference:"+sc.Name, "internal failure: "+res.Stderr, map[string]interface{}{"scenario": sc.Name, "sql": sc.SQL})
			continue
		}
		jobs = append(jobs, job{sc: sc, id: "(none)", sig: ""})
		enc := 0
		k := 0
		for _, p := range points {
			if p.Point == "signal.seen" {
				continue
			}
			if p.Point == "encode.row" {
				enc++
				if enc > 2 && enc%37 != 0 {
					continue
				}
			}
			k++
			for si, sig := range []string{"INT", "TERM", "QUIT"} {
				if si > 0 && !r.Thorough && k%6 != si {
					continue
				}
				jobs = append(jobs, job{sc: sc, env: []string{"VERIF_SIGNAL_AT=" + p.ID + ":" + sig}, id: p.ID, sig: sig})
			}
		}
		r.Sample(map[string]interface{}{"scenario": sc.Name, "sql": sc.SQL, "holder": sc.Holder, "points": len(points)})
	}
	type out struct {
		lines []string
		infra string
		fatal string
	}
	// a further signal while the process is cleaning up after the first one: for every fourth signalled run, the same
	// run again with a second signal at a point it visits after the handler has seen the first
	// (found by running the one-signal jobs first: what a process does after a signal is read from its own record)
	first := len(jobs)
	after := make([][]string, first)
	core.Parallel(first, 8, func(i int) {
		j := jobs[i]
		if j.sig == "" || i%4 != 0 {
			return
		}
		sub := j.sc
		sub.Name = fmt.Sprintf("%s.pre%d", j.sc.Name, i)
		_, _, points := runSignalScenario(r, sub, j.env)
		seen := false
		for _, p := range points {
			if p.Point == "signal.seen" {
				seen = true
				continue
			}
			if seen && p.Point != "encode.row" {
				after[i] = append(after[i], p.ID)
			}
		}
	})
	for i := 0; i < first; i++ {
		if n := len(after[i]); n > 0 {
			j := jobs[i]
			for _, k := range []int{0, n / 2} {
				sig2 := []string{"TERM", "INT", "QUIT"}[(i/4+k)%3]
				jobs = append(jobs, job{sc: j.sc, env: append(append([]string{}, j.env...), "VERIF_SIGNAL2_AT="+after[i][k]+":"+sig2), id: j.id + "+" + after[i][k], sig: j.sig + "+" + sig2})
				if n < 2 {
					break
				}
			}
		}
	}
	r.Coverage["second_signal_runs"] = len(jobs) - first
	outs := make([]out, len(jobs))
	core.Parallel(len(jobs), 8, func(i int) {
		j := jobs[i]
		sub := j.sc
		sub.Name = fmt.Sprintf("%s.%d", j.sc.Name, i)
		snap, res, points := runSignalScenario(r, sub, j.env)
		o := out{}
		if res.Signaled {
			o.fatal = fmt.Sprintf("the process was killed by the signal instead of handling it (scenario %s, %s at %s)", j.sc.Name, j.sig, j.id)
		} else if res.IsFatal() {
			o.fatal = fmt.Sprintf("internal failure (scenario %s, %s at %s): %s", j.sc.Name, j.sig, j.id, firstLine(res.Stderr))
		}
		o.lines = obsLinesForBin(j.sc, points, snap)
		outs[i] = o
	})
	var lines []string
	for i, o := range outs {
		r.Distinct(jobs[i].sc.Name + "|" + jobs[i].id + "|" + jobs[i].sig)
		if o.fatal != "" {
			pt := jobs[i].id
			if k := strings.Index(pt, "@"); k > 0 {
				pt = pt[:k]
			}
			r.Violation("signal-fatal:"+jobs[i].sc.Name+"@"+pt, o.fatal, map[string]interface{}{"scenario": jobs[i].sc.Name, "sql": jobs[i].sc.SQL, "signal_at": jobs[i].id, "signal": jobs[i].sig})
		}
		lines = append(lines, o.lines...)
	}
	seen := 0
	res := r.RunTLC(core.TLCOpts{Module: "FileProtocolObs", Cfg: "FileProtocolObs.cfg", Workers: 1,
		Texts: map[string]string{"trace.ndjson": strings.Join(lines, "\n") + "\n"}, Timeout: 15 * time.Minute, KeepOut: true,
		OnObs: func(line string) {
			m := reObs.FindStringSubmatch(line)
			if m == nil {
				core.Fail("cannot parse %s", line)
			}
			var n int
			fmt.Sscanf(m[1], "%d", &n)
			seen++
			if m[2] != "" && n-1 < len(jobs) {
				j := jobs[n-1]
				pt := j.id
				if k := strings.Index(pt, "@"); k > 0 {
					pt = pt[:k]
				}
				// reproduce before reporting
				snap, _, points := runSignalScenario(r, j.sc, j.env)
				l2 := obsLinesForBin(j.sc, points, snap)
				again := ""
				r.RunTLC(core.TLCOpts{Module: "FileProtocolObs", Cfg: "FileProtocolObs.cfg", Workers: 1,
					Texts: map[string]string{"trace.ndjson": strings.Join(l2, "\n") + "\n"}, Timeout: 5 * time.Minute, KeepOut: true,
					OnObs: func(line string) {
						if mm := reObs.FindStringSubmatch(line); mm != nil {
							again = mm[2]
						}
					}})
				if again == "" && strings.Contains(j.sig, "+") {
					// a second signal races with the end of the process: an observation that does not show again is counted, not reported
					r.Count("second_signal_observation_not_reproduced", 1)
					return
				}
				if again == "" {
					core.Fail("C11 observation %s did not reproduce (scenario %s, %s at %s)", m[2], j.sc.Name, j.sig, j.id)
				}
				r.Violation(again+"|"+j.sc.Name+"@"+pt, fmt.Sprintf("%s after scenario %s with %s at %s; directory: %v", again, j.sc.Name, j.sig, j.id, keysOf(snap)),
					map[string]interface{}{"scenario": j.sc.Name, "sql": j.sc.SQL, "signal_at": j.id, "signal": j.sig, "holder": j.sc.Holder})
			}
		}})
	if !res.OK || seen != len(jobs) {
		core.Fail("FileProtocolObs did not consume all runs (%d of %d): %s %s", seen, len(jobs), res.Violated, res.ErrorText)
	}
	// two-party terminations: a process ending (normally, by timeout or error) while another one is in the
	// middle of its own acquisition or release. Executed through the gate scheduler on the real handler
	// code; only the clean-exit clauses are judged here (the others belong to C09).
	pairs := [][2]string{{"R", "UC"}, {"UC", "R"}, {"UC", "UC"}, {"RUC", "UC"}, {"UE", "R"}, {"UR", "R"}, {"CC", "CC"}, {"CR", "R2"}, {"U12C", "U21C"}}
	batch := fpPreempt(r, pairs)
	stride := 2
	if r.Thorough {
		stride = 1
	}
	batch = append(batch, fpPreempt2(r, [][2]string{{"UC", "R"}, {"R", "UC"}, {"UC", "UC"}, {"UE", "RUC"}}, stride)...)
	fpPad(batch)
	bad := validateObs(r, batch)
	reported := map[string]bool{}
	for i, t := range batch {
		r.Distinct("sched:" + core.JSON(t.Init.Progs) + strings.Join(t.Schedule, ","))
		cl := bad[i]
		if !strings.HasPrefix(cl, "ObsCleanExit") {
			continue
		}
		again := runSchedule(r, t.Init, t.Schedule, "reproduce")
		fpPad([]*fpTrace{again})
		b2 := validateObs(r, []*fpTrace{again})
		if !strings.HasPrefix(b2[0], "ObsCleanExit") {
			core.Fail("C11 two-party observation %s did not reproduce", cl)
		}
		sig := fpSignature(b2[0], again)
		if reported[sig] {
			continue
		}
		reported[sig] = true
		r.Violation(sig, fmt.Sprintf("%s\nprograms=%s\nschedule=%v", b2[0], core.JSON(t.Init.Progs), t.Schedule),
			map[string]interface{}{"init": t.Init, "schedule": t.Schedule, "clause": b2[0]})
	}
	r.Coverage["two_party_schedules"] = len(batch)
	r.Coverage["traces_validated_against_impl"] = len(jobs) + len(batch)
	r.Coverage["evaluations"] = len(jobs)
	r.Coverage["distinct_nontrivial"] = r.DistinctCount()
	r.Coverage["rule"] = "one execution of the real binary per (scenario, termination): no signal, or SIGINT/SIGTERM/SIGQUIT delivered at a hook point id recorded by a reference run (all points with SIGINT; TERM and QUIT on every point in the thorough tier, every 6th in quick); every fourth signalled run repeated with a second signal at the first and at the middle point it visits after the first was seen; scenarios: read-only, update+commit, auto-commit of two tables, create+commit, create+rollback, error, EXIT, competing lock holder (read and update); non-trivial = distinct (scenario, point id, signal)"
	r.Coverage["exhaustive"] = true
}

func firstLine(s string) string {
	if i := strings.IndexByte(s, '\n'); i >= 0 {
		return s[:i]
	}
	return s
}

func keysOf(m map[string]string) []string {
	var l []string
	for k := range m {
		l = append(l, k)
	}
	return l
}

var _ = sched.DirF{}
