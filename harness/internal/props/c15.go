package props

import (
	"encoding/json"
	"fmt"
	"os"
	"path/filepath"
	"strings"
	"time"

	"verifharness/internal/core"
	"verifharness/internal/sut"
)

// C15 - blocks and function calls give declarations a local lifetime and safe shadowing (spec/Scope.tla).
// TLC fills every hole of every program skeleton with every atom, executes each program with the
// semantics of Scope.tla and emits what it prints and how it ends; each program is rendered to csvq text,
// run on the real csvq and compared line by line.  Each program is also run a second way (wrapped in a
// user-defined function body where that is possible) to exercise concurrent invocations over a table.

func init() {
	Registry["C15"] = &Check{Level: "model_checking", Run: runC15}
}

type sexpr map[string]interface{}

func renderExpr(e sexpr) string {
	switch e["k"] {
	case "lit":
		return fmt.Sprintf("%d", int(e["v"].(float64)))
	case "var":
		return e["x"].(string)
	case "add":
		return renderExpr(e["l"].(map[string]interface{})) + " + " + renderExpr(e["r"].(map[string]interface{}))
	case "lt":
		return renderExpr(e["l"].(map[string]interface{})) + " < " + renderExpr(e["r"].(map[string]interface{}))
	case "call":
		return e["f"].(string) + "(" + renderExpr(e["a"].(map[string]interface{})) + ")"
	case "tab":
		return "(SELECT n FROM " + e["t"].(string) + ")"
	case "aggq":
		return "(SELECT " + e["f"].(string) + "(n) FROM " + e["t"].(string) + ")"
	}
	core.Fail("unknown expression %v", e)
	return ""
}

func renderStmts(ss []interface{}, ind string) string {
	var b strings.Builder
	for _, x := range ss {
		s := x.(map[string]interface{})
		ex := func(k string) string { return renderExpr(s[k].(map[string]interface{})) }
		switch s["k"] {
		case "var":
			fmt.Fprintf(&b, "%sVAR %s := %s;\n", ind, s["x"], ex("e"))
		case "set":
			fmt.Fprintf(&b, "%s%s := %s;\n", ind, s["x"], ex("e"))
		case "dispose":
			fmt.Fprintf(&b, "%sDISPOSE %s;\n", ind, s["x"])
		case "print":
			fmt.Fprintf(&b, "%sPRINT %s;\n", ind, ex("e"))
		case "break":
			b.WriteString(ind + "BREAK;\n")
		case "continue":
			b.WriteString(ind + "CONTINUE;\n")
		case "exit":
			b.WriteString(ind + "EXIT;\n")
		case "return":
			fmt.Fprintf(&b, "%sRETURN %s;\n", ind, ex("e"))
		case "if":
			for i, br := range s["branches"].([]interface{}) {
				m := br.(map[string]interface{})
				kw := "IF"
				if i > 0 {
					kw = "ELSEIF"
				}
				fmt.Fprintf(&b, "%s%s %s THEN\n%s", ind, kw, renderExpr(m["c"].(map[string]interface{})), renderStmts(m["body"].([]interface{}), ind+"  "))
			}
			if els, ok := s["els"].([]interface{}); ok && len(els) > 0 {
				fmt.Fprintf(&b, "%sELSE\n%s", ind, renderStmts(els, ind+"  "))
			}
			b.WriteString(ind + "END IF;\n")
		case "while":
			fmt.Fprintf(&b, "%sWHILE %s DO\n%s%sEND WHILE;\n", ind, ex("c"), renderStmts(s["body"].([]interface{}), ind+"  "), ind)
		case "curdecl":
			var sels []string
			for _, v := range s["vs"].([]interface{}) {
				sels = append(sels, fmt.Sprintf("SELECT %d", int(v.(float64))))
			}
			fmt.Fprintf(&b, "%sDECLARE %s CURSOR FOR %s;\n", ind, s["c"], strings.Join(sels, " UNION ALL "))
		case "whilein":
			kw := ""
			if s["decl"].(bool) {
				kw = "VAR "
			}
			fmt.Fprintf(&b, "%sOPEN %s;\n%sWHILE %s%s IN %s DO\n%s%sEND WHILE;\n%sCLOSE %s;\n", ind, s["c"], ind, kw, s["x"], s["c"], renderStmts(s["body"].([]interface{}), ind+"  "), ind, ind, s["c"])
		case "curuse":
			fmt.Fprintf(&b, "%sOPEN %s;\n%sFETCH %s INTO %s;\n%sCLOSE %s;\n", ind, s["c"], ind, s["c"], s["x"], ind, s["c"])
		case "curopen":
			fmt.Fprintf(&b, "%sOPEN %s;\n", ind, s["c"])
		case "curclose":
			fmt.Fprintf(&b, "%sCLOSE %s;\n", ind, s["c"])
		case "curfirst":
			fmt.Fprintf(&b, "%sFETCH FIRST %s INTO %s;\n", ind, s["c"], s["x"])
		case "curisopen":
			fmt.Fprintf(&b, "%sPRINT CURSOR %s IS OPEN;\n", ind, s["c"])
		case "curdispose":
			fmt.Fprintf(&b, "%sDISPOSE CURSOR %s;\n", ind, s["c"])
		case "tabdecl":
			fmt.Fprintf(&b, "%sDECLARE %s VIEW (n) AS SELECT %d;\n", ind, s["t"], int(s["v"].(float64)))
		case "tabdispose":
			fmt.Fprintf(&b, "%sDISPOSE VIEW %s;\n", ind, s["t"])
		case "func":
			if agg, _ := s["agg"].(bool); agg {
				fmt.Fprintf(&b, "%sDECLARE %s AGGREGATE (list) AS BEGIN\n%s  VAR @n := 0, @v;\n%s  WHILE @v IN list DO @n := @n + @v + 100; END WHILE;\n%s  RETURN @n;\n%sEND;\n", ind, s["f"], ind, ind, ind, ind)
				continue
			}
			params := s["p"].(string)
			if q, _ := s["q"].(string); q != "" {
				params += ", " + q + " DEFAULT " + renderExpr(s["d"].(map[string]interface{}))
			}
			fmt.Fprintf(&b, "%sDECLARE %s FUNCTION (%s) AS BEGIN\n%s%sEND;\n", ind, s["f"], params, renderStmts(s["body"].([]interface{}), ind+"  "), ind)
		default:
			core.Fail("unknown statement %v", s)
		}
	}
	return b.String()
}

type scopeCase struct {
	Prog []interface{} `json:"prog"`
	Out  []string      `json:"out"`
	End  string        `json:"end"`
	// the same program under the deviation "temporary tables cannot shadow" (Scope.tla, RunNS)
	Out2 []string `json:"out2"`
	End2 string   `json:"end2"`
}

func runScopeCase(r *core.Run, p *sut.Proc, c scopeCase) (string, string) {
	sql := renderStmts(c.Prog, "")
	res := p.Exec(sql)
	got := printed(res.Out)
	end := "ok"
	if res.Err != "" {
		end = errClass(res)
	}
	if (end != c.End || strings.Join(got, "|") != strings.Join(c.Out, "|")) && end == c.End2 && strings.Join(got, "|") == strings.Join(c.Out2, "|") {
		return "scope:temporary-table-cannot-shadow", fmt.Sprintf("a temporary table declared in a block under the name of an outer one is refused (%s) instead of shadowing it: program ends with %s printing %v, the property gives %s printing %v\n%s", firstLine(res.Err), end, got, c.End, c.Out, sql)
	}
	if end != c.End {
		return "scope:end:" + c.End + "->" + end, fmt.Sprintf("program ends with %s, specification %s (%s)\n%s", end, c.End, firstLine(res.Err), sql)
	}
	if strings.Join(got, "|") != strings.Join(c.Out, "|") {
		return "scope:output", fmt.Sprintf("program prints %v, specification %v\n%s", got, c.Out, sql)
	}
	return "", ""
}

func runC15(r *core.Run) {
	r.Assume = []string{
		"programs are the instantiations of 7 skeletons (straight line, IF/ELSE, WHILE with BREAK/CONTINUE, function with parameter, recursion, ELSEIF with shadowing, loop inside a function + function declared in a block) with every atom in every hole; names @a @b @c @i @p, functions f g h",
		"EXIT inside a function body and BREAK/CONTINUE outside loops are not generated (the manual does not settle them)",
	}
	mc := r.MustHold(core.TLCOpts{Module: "ScopeGen", Cfg: "ScopeMC.cfg", Workers: 8, Timeout: 20 * time.Minute})
	r.Coverage["states"] = mc.Distinct
	r.Coverage["transitions"] = mc.Generated
	var cases []scopeCase
	r.RunTLC(core.TLCOpts{Module: "ScopeGen", Cfg: "ScopeGen.cfg", Workers: 1, Timeout: 20 * time.Minute,
		OnTrace: func(raw json.RawMessage) {
			var c scopeCase
			if err := json.Unmarshal(raw, &c); err != nil {
				core.Fail("bad case: %v", err)
			}
			if c.Out == nil {
				c.Out = []string{}
			}
			cases = append(cases, c)
		}})
	if len(cases) < 1000 {
		core.Fail("generator produced only %d programs", len(cases))
	}
	type res struct{ sig, what string }
	results := make([]res, len(cases))
	nw := 8
	chunk := (len(cases) + nw - 1) / nw
	core.Parallel(nw, nw, func(w int) {
		dir := r.Dir(fmt.Sprintf("sc%d", w))
		for i := w * chunk; i < (w+1)*chunk && i < len(cases); i++ {
			p, err := sut.NewProc(dir, nil) // a fresh session per program: declarations must not leak
			if err != nil {
				core.Fail("proc: %v", err)
			}
			s, wh := runScopeCase(r, p, cases[i])
			p.End()
			results[i] = res{s, wh}
		}
	})
	reported := map[string]bool{}
	for i, x := range results {
		r.Distinct(core.JSON(cases[i].Prog))
		if x.sig == "" || reported[x.sig] {
			continue
		}
		reported[x.sig] = true
		r.Violation(x.sig, x.what, map[string]interface{}{"program": renderStmts(cases[i].Prog, ""), "expected_out": cases[i].Out, "expected_end": cases[i].End})
	}
	c15Concurrent(r)
	r.Sample(map[string]interface{}{"program": renderStmts(cases[len(cases)/2].Prog, ""), "prints": cases[len(cases)/2].Out, "ends": cases[len(cases)/2].End})
	r.Coverage["traces_validated_against_impl"] = len(cases)
	r.Coverage["exhaustive"] = true
}

// c15Concurrent: invocations of one function made by several worker goroutines at once (a scalar function in the select
// list of a table big enough to be split, a user-defined aggregate with OVER over many partitions, one with GROUP BY).
// Every invocation has its own parameters: a function that returns its parameter returns, for every row, the value of
// the argument written for THAT row.  The last argument of every call is slow (an external command), so that the
// arguments of one row are still being evaluated while another worker evaluates those of its row - the window in which
// state shared between invocations would show.
func c15Concurrent(r *core.Run) {
	dir := r.Dir("conc")
	defer os.RemoveAll(dir)
	var big, parts strings.Builder
	big.WriteString("id,v\n")
	for i := 1; i <= 170; i++ {
		fmt.Fprintf(&big, "%d,%d\n", i, i%7)
	}
	parts.WriteString("id,g,v\n")
	for i := 1; i <= 36; i++ {
		fmt.Fprintf(&parts, "%d,%d,%d\n", i, (i-1)/2, i%5)
	}
	writeFile(filepath.Join(dir, "big.csv"), big.String())
	writeFile(filepath.Join(dir, "parts.csv"), parts.String())
	p, err := sut.NewProc(dir, nil)
	if err != nil {
		core.Fail("proc: %v", err)
	}
	defer p.End()
	pre := "SET @@CPU TO 4; DECLARE idf FUNCTION (@a, @z) AS BEGIN VAR @l := @a; RETURN @l; END; " +
		"DECLARE own AGGREGATE (c, @a, @z) AS BEGIN VAR @l := @a; RETURN @l; END;"
	if rs := p.Exec(pre); rs.Err != "" {
		core.Fail("c15 concurrent: %s", rs.Err)
	}
	slow := "CALL('sleep', '0.004')"
	for _, q := range []struct{ name, sql string }{
		{"scalar", "SELECT id, idf(id, " + slow + ") AS o FROM big;"},
		{"aggregate-over", "SELECT id, own(v, id, " + slow + ") OVER (PARTITION BY g) AS o FROM parts;"},
		{"aggregate-group", "SELECT g, own(v, g, " + slow + ") AS o FROM parts GROUP BY g;"},
	} {
		rs := p.Exec(q.sql)
		if rs.Err != "" {
			r.Violation("scope:concurrent:"+q.name+":error", q.sql+" fails: "+firstLine(rs.Err), map[string]interface{}{"sql": q.sql})
			continue
		}
		ts, err := sut.ParseJSONTables(rs.Out)
		if err != nil || len(ts) != 1 {
			core.Fail("c15 concurrent: cannot parse the result of %s", q.sql)
		}
		bad := ""
		for _, row := range ts[0].Rows {
			if len(row) != 2 || row[0].String() != row[1].String() {
				bad = fmt.Sprintf("row %s: the function returned %s for the argument %s", row[0].String(), row[1].String(), row[0].String())
				break
			}
		}
		r.Count("concurrent_invocation_rows", len(ts[0].Rows))
		if bad != "" {
			r.Violation("scope:concurrent:"+q.name, q.sql+": an invocation saw the parameter of another one - "+bad, map[string]interface{}{"sql": q.sql})
		}
	}
}
