package props

import (
	"encoding/json"
	"fmt"
	"os"
	"path/filepath"
	"regexp"
	"sort"
	"strings"
	"time"

	"github.com/mithrandie/csvq/lib/value"

	"verifharness/internal/core"
	"verifharness/internal/sut"
)

// ---------------------------------------------------------------------------
// spec/Txn.tla: C05 (exact edits + counts), C08 (failing statements), C20 (stable reads with an
// environment committer) in-process, C01 (ways of ending) with the real binary.
// ---------------------------------------------------------------------------

func init() {
	mk := func(id string, assume []string, gens ...string) *ActionSpec {
		gens = append([]string{"TxnGen.cfg"}, gens...)
		return &ActionSpec{
			ID: id, Module: "Txn",
			MCCfgs: []string{"TxnMC_q.cfg", "TxnMC_env_q.cfg"}, MCThor: []string{"TxnMC.cfg", "TxnMC_env.cfg"}, GenCfgs: gens,
			NSim: [2]int{400, 2000}, NRand: [2]int{40, 400},
			Setup: txnSetup, Exec: txnExec, Random: nil, Sig: txnSig, Assume: assume, MCWorkers: 12,
		}
	}
	c05 := mk("C05", []string{"cells are small integers and NULL; statement forms: INSERT (1 and 2 rows, wrong length), UPDATE/DELETE with and without WHERE, REPLACE on one key column, ADD/DROP/RENAME column, on file tables and a temporary table; INSERT..SELECT, column lists, UPDATE..FROM join, multi-assignment UPDATE, ADD FIRST / DEFAULT expression, CREATE TABLE AS SELECT, SET ENCODING, inserts made by user-defined functions"}, "TxnGen_create.cfg", "TxnGen_temp.cfg", "TxnGen_two.cfg", "TxnGen_typed.cfg", "TxnGen_dirs.cfg", "TxnGen_upgrade.cfg")
	c05.Random = func(r *core.Run, k int) (Action, []Action) { return txnRandom(r, k, "dml") }
	c08 := mk("C08", []string{"failure causes modelled: division by zero at one row of a multi-row UPDATE, wrong row length, unknown field after RENAME/DROP, duplicate column, existing file, missing file, failing DEFAULT expression, ambiguous join update, CREATE TABLE AS SELECT with wrong names / failing query, COMMIT that cannot encode a changed file, one UPDATE of two tables failing in the second"}, "TxnGen_create.cfg", "TxnGen_commitfail.cfg", "TxnGen_temp.cfg", "TxnGen_two.cfg", "TxnGen_typed.cfg")
	c08.Random = func(r *core.Run, k int) (Action, []Action) { return txnRandom(r, k, "fail") }
	c20 := mk("C20", []string{"the environment is a second real csvq transaction in the same OS process with a 50 ms wait timeout; reads by identifier, sub-query, aggregate and table function (f2 carries a byte order mark)"}, "TxnGen_reads.cfg", "TxnGen_case.cfg", "TxnGen_upgrade.cfg")
	c20.Random = func(r *core.Run, k int) (Action, []Action) { return txnRandom(r, k, "env") }
	// the poison switch of lib/value (build tag verif): a value handed back to the pool is never re-issued but marked, so
	// that a table cell which some statement discarded shows at the next read instead of when the pool happens to recycle it
	poisoned := func(sp *ActionSpec) func(r *core.Run) {
		return func(r *core.Run) {
			value.VerifPoison = true
			defer func() { value.VerifPoison = false }()
			r.Assume = append(r.Assume, "the real code runs with the poison switch of lib/value (build tag verif): Discard marks the object instead of re-issuing it")
			runActionCheck(r, sp)
		}
	}
	Registry["C05"] = &Check{Level: "model_checking", Run: poisoned(c05)}
	Registry["C08"] = &Check{Level: "model_checking", Run: func(r *core.Run) {
		poisoned(c08)(r)
		c08Attributes(r)
	}}
	Registry["C20"] = &Check{Level: "model_checking", Run: func(r *core.Run) {
		poisoned(c20)(r)
		// whole procedures run by the real binary: reads around nested executions (EXECUTE, SOURCE, prepared statements, function
		// calls) and commits of another process (an external command of the procedure)
		nsim := 150
		if r.Thorough {
			nsim = 2000
		}
		r.Coverage["script_procedures"] = txnScriptReplay(r, []string{"TxnScriptGen_nested.cfg"}, nsim, "c20")
	}}
	Registry["C01"] = &Check{Level: "model_checking", Run: runC01}
}

type jtable struct {
	Cols   []string `json:"cols"`
	Rows   [][]int  `json:"rows"`
	Absent bool     `json:"absent"`
}

// cellH is the specification's H: a text that is not a number and that Shift_JIS cannot spell
const cellH = 777
const textH = "\ud55c"

// cellD is the specification's D: the datetime 2012-02-03 00:00:00 (UTC), as a value or as the text csvq writes for it
const cellD = 888
const textD = "2012-02-03T00:00:00Z"
const bom = "\ufeff"

func showCell(s string) string {
	if s == textH {
		return "H"
	}
	if s == textD {
		return "D"
	}
	return s
}

// tableBytes: the initial file of table f; f2 starts with a byte order mark (csvq keeps it)
func tableBytes(f string, t jtable) string {
	if f == "f2" {
		return bom + tableCSV(t)
	}
	return tableCSV(t)
}

func tableCSV(t jtable) string {
	var b strings.Builder
	b.WriteString(strings.Join(t.Cols, ","))
	b.WriteByte('\n')
	for _, r := range t.Rows {
		for i, c := range r {
			if i > 0 {
				b.WriteByte(',')
			}
			if c == cellH {
				b.WriteString(textH)
			} else if c == cellD {
				b.WriteString(textD)
			} else if c != -1 {
				fmt.Fprintf(&b, "%d", c)
			}
		}
		b.WriteByte('\n')
	}
	return b.String()
}

func txnInitTables(init Action) map[string]jtable {
	m := map[string]jtable{}
	raw, _ := json.Marshal(init["disk"])
	_ = json.Unmarshal(raw, &m)
	return m
}

func txnSetup(dir string, init Action) []string {
	_ = os.MkdirAll(filepath.Join(dir, "sub"), 0755)
	writeFile(filepath.Join(dir, "nest.sql"), "@z := 1;\n")
	for f, t := range txnInitTables(init) {
		if !t.Absent {
			writeFile(fileOf(dir, f), tableBytes(f, t))
		}
	}
	// nobody else holds these files (the environment process commits and leaves): a lock that is still there
	// was left behind by an earlier statement - do not wait 10 s for it
	pre := []string{"SET @@WAIT_TIMEOUT TO 0.5;"} // (0.1 s was not enough on a loaded machine: spurious ContextDone results, and after 60 of them the replay stopped early)
	// tables big enough to be split over workers are processed with several workers (the sessions of the harness
	// default to one): UPDATE, DELETE and REPLACE number and match records per worker range
	big := 0
	for _, t := range txnInitTables(init) {
		if len(t.Rows) > big {
			big = len(t.Rows)
		}
	}
	if big >= 100 {
		pre = append(pre, fmt.Sprintf("SET @@CPU TO %d;", 2+big%3))
	}
	return append(pre, txnPreamble...)
}

// declarations every Txn program starts with: the temporary table, a variable to receive function results, a function
// that runs off its end and one inserting function per table
var txnPreamble = []string{"DECLARE tt VIEW (id, v);", "VAR @z;", "DECLARE noop FUNCTION () AS BEGIN VAR @q := 1; END;",
	"DECLARE ins_f1 FUNCTION (@k) AS BEGIN INSERT INTO `f1.csv` VALUES (@k, 1); END;", "DECLARE ins_f2 FUNCTION (@k) AS BEGIN INSERT INTO `f2.csv` VALUES (@k, 1); END;",
	"DECLARE ins_tt FUNCTION (@k) AS BEGIN INSERT INTO tt VALUES (@k, 1); END;", "PREPARE pz FROM '@z := 3';"}

// fileOf: where table f lives under the repository directory dir (g1 is the f1.csv of the sub-directory)
func fileOf(dir, f string) string {
	if f == "g1" {
		return filepath.Join(dir, "sub", "f1.csv")
	}
	return filepath.Join(dir, f+".csv")
}

func tname(t string) string {
	if t == "tt" {
		return "tt"
	}
	if t == "g1" {
		return "`sub/f1.csv`"
	}
	return "`" + t + ".csv`"
}

var reCount = regexp.MustCompile(`(?m)^(\d+|no) (?:record|field)s? (?:inserted|updated|deleted|replaced|added|dropped|renamed) on`)

var reCountOn = regexp.MustCompile(`(?m)^(\d+|no) records? deleted on "([^"]*)"`)

func countOf(out string) (string, bool) {
	m := reCount.FindStringSubmatch(out)
	if m == nil {
		return "", false
	}
	if m[1] == "no" {
		return "0", true
	}
	return m[1], true
}

func txnSQL(a Action) string {
	t := tname(aStr(a, "t"))
	k, x := aInt(a, "k"), aInt(a, "x")
	switch actName(a) {
	case "select":
		return "SELECT * FROM " + t + ";"
	case "insert1":
		return fmt.Sprintf("INSERT INTO %s VALUES (%d, %d);", t, k, x)
	case "insert2":
		return fmt.Sprintf("INSERT INTO %s VALUES (%d, %d), (%d, %d);", t, k, x, k+1, x)
	case "insertbad":
		return fmt.Sprintf("INSERT INTO %s VALUES (1, 1, 1, 1);", t)
	case "update":
		if k == 0 {
			return fmt.Sprintf("UPDATE %s SET v = v + 1;", t)
		}
		return fmt.Sprintf("UPDATE %s SET v = v + 1 WHERE id = %d;", t, k)
	case "updatefail":
		return fmt.Sprintf("UPDATE %s SET v = CASE WHEN id = %d THEN 1 %% 0 ELSE v + 1 END;", t, k)
	case "delete":
		if k == 0 {
			return fmt.Sprintf("DELETE FROM %s;", t)
		}
		return fmt.Sprintf("DELETE FROM %s WHERE id = %d;", t, k)
	case "replace":
		return fmt.Sprintf("REPLACE INTO %s (id, v) USING (id) VALUES (%d, %d);", t, k, x)
	case "replace3":
		return fmt.Sprintf("REPLACE INTO %s (id, v) USING (id) VALUES (%d, %d), (%d, %d), (%d, %d);", t, k+2, x, k, x+1, k+1, x)
	case "replacedup":
		return fmt.Sprintf("REPLACE INTO %s (id, v) USING (id) VALUES (%d, %d), (%d, %d);", t, k, x, k, x+1)
	case "selectsub":
		return "SELECT * FROM (SELECT * FROM " + t + ") s;"
	case "selectagg":
		return "SELECT COUNT(*) AS n, SUM(v) AS s FROM " + t + ";"
	case "insertsel":
		return fmt.Sprintf("INSERT INTO %s SELECT id + 10, v FROM %s;", t, tname(aStr(a, "u")))
	case "insertcols":
		return fmt.Sprintf("INSERT INTO %s (id) VALUES (%d);", t, k)
	case "insertdup":
		return fmt.Sprintf("INSERT INTO %s (id, id) VALUES (%d, %d);", t, k, k+1)
	case "insertbad2":
		return fmt.Sprintf("INSERT INTO %s VALUES (%d, 1), (%d);", t, k, k+1)
	case "updatejoin":
		return fmt.Sprintf("UPDATE tx SET tx.v = ux.v FROM %s tx JOIN %s ux ON tx.id = ux.id;", t, tname(aStr(a, "u")))
	case "updatetwo":
		return fmt.Sprintf("UPDATE tx, ux SET tx.v = tx.v + 1, ux.v = CASE WHEN ux.id = %d THEN 1 %% 0 ELSE ux.v + 1 END FROM %s tx JOIN %s ux ON tx.id = ux.id;", k, t, tname(aStr(a, "u")))
	case "deletetwo":
		return fmt.Sprintf("DELETE ux, tx FROM %s tx LEFT JOIN %s ux ON tx.id = ux.id WHERE tx.id = %d;", t, tname(aStr(a, "u")), k)
	case "deletejoin":
		return fmt.Sprintf("DELETE tx FROM %s ux JOIN %s tx ON tx.id = ux.id;", tname(aStr(a, "u")), t)
	case "addfirst":
		return fmt.Sprintf("ALTER TABLE %s ADD x DEFAULT id FIRST;", t)
	case "addfail":
		return fmt.Sprintf("ALTER TABLE %s ADD y DEFAULT CASE WHEN id = %d THEN 1 %% 0 ELSE 7 END;", t, k)
	case "addcol":
		return fmt.Sprintf("ALTER TABLE %s ADD w DEFAULT 7;", t)
	case "dropcol":
		return fmt.Sprintf("ALTER TABLE %s DROP w;", t)
	case "renamevu":
		return fmt.Sprintf("ALTER TABLE %s RENAME v TO u;", t)
	case "renameuv":
		return fmt.Sprintf("ALTER TABLE %s RENAME u TO v;", t)
	case "updateswap":
		if k == 0 {
			return fmt.Sprintf("UPDATE %s SET id = v, v = id;", t)
		}
		return fmt.Sprintf("UPDATE %s SET id = v, v = id WHERE id = %d;", t, k)
	case "inserth":
		return fmt.Sprintf("INSERT INTO %s VALUES (%d, '%s');", t, k, textH)
	case "selectfn":
		return "SELECT * FROM CSV(',', " + t + ", 'UTF8');"
	case "insertd":
		return fmt.Sprintf("INSERT INTO %s VALUES (%d, DATETIME('2012-02-03 00:00:00'));", t, k)
	case "deleted":
		return fmt.Sprintf("DELETE FROM %s WHERE v = DATETIME('2012-02-03 00:00:00');", t)
	case "selectd":
		return fmt.Sprintf("SELECT COUNT(*) AS n FROM %s WHERE v <= DATETIME('2012-02-03 00:00:00');", t)
	case "insertsub":
		if x == 1 {
			return fmt.Sprintf("INSERT INTO %s VALUES (%d, (SELECT v FROM %s LIMIT 1)), (%d);", t, k, tname(aStr(a, "u")), k+1)
		}
		return fmt.Sprintf("INSERT INTO %s VALUES (%d, (SELECT v FROM %s LIMIT 1));", t, k, tname(aStr(a, "u")))
	case "selectcase":
		return "SELECT * FROM `" + strings.ToUpper(aStr(a, "t")[:1]) + aStr(a, "t")[1:] + ".csv`;"
	case "selectinline":
		return "SELECT * FROM CSV_INLINE(',', " + t + ");"
	case "setenc":
		return fmt.Sprintf("ALTER TABLE %s SET ENCODING TO SJIS;", t)
	case "createas":
		u := tname(aStr(a, "u"))
		switch k {
		case 1:
			return "CREATE TABLE `f3.csv` (id) AS SELECT id, v FROM " + u + ";"
		case 2:
			return "CREATE TABLE `f3.csv` (id, id) AS SELECT id, v FROM " + u + ";"
		case 3:
			return "CREATE TABLE `f3.csv` (id, v) AS SELECT id, 1 % 0 FROM " + u + ";"
		}
		return "CREATE TABLE `f3.csv` (id, v) AS SELECT id, v FROM " + u + ";"
	case "callnoop":
		return "@z := noop();"
	case "nestexec":
		return "EXECUTE '@z := 2';"
	case "nestsource":
		return "SOURCE `nest.sql`;"
	case "nestprep":
		return "EXECUTE pz;"
	case "callins":
		return fmt.Sprintf("@z := ins_%s(%d);", aStr(a, "t"), k)
	case "create":
		return "CREATE TABLE `f3.csv` (id, v);"
	case "createifnot":
		return fmt.Sprintf("CREATE TABLE IF NOT EXISTS %s (%s);", t, []string{"id, v", "id", "id, zz"}[k])
	case "commit":
		return "COMMIT;"
	case "rollback":
		return "ROLLBACK;"
	}
	return ""
}

func showTable(out string) []string {
	ts, err := sut.ParseJSONTables(out)
	if err != nil {
		core.Fail("cannot parse result %q: %v", out, err)
	}
	if len(ts) == 0 || len(ts[0].Rows) == 0 {
		return []string{"EMPTY"}
	}
	l := append([]string{}, ts[0].Header...)
	for _, row := range ts[0].Rows {
		for _, c := range row {
			l = append(l, showCell(c.String()))
		}
	}
	return l
}

// showFile reads a CSV table file directly (no csvq involved).
func showFile(path string, zeroIsAbsent bool) []string {
	b, err := os.ReadFile(path)
	if err != nil {
		return []string{"ABSENT"}
	}
	if len(b) == 0 {
		if zeroIsAbsent {
			return []string{"ABSENT"} // created, not yet committed: the empty placeholder
		}
		return []string{"PLACEHOLDER"}
	}
	lines := strings.Split(strings.TrimRight(strings.TrimPrefix(string(b), bom), "\n"), "\n")
	if len(lines) <= 1 {
		return []string{"EMPTY"}
	}
	var l []string
	for i, ln := range lines {
		for _, c := range strings.Split(ln, ",") {
			c = strings.Trim(c, "\"")
			if i > 0 && c == "" {
				c = "NULL"
			}
			l = append(l, showCell(c))
		}
	}
	return l
}

// pathSpelling: table t of the repository dir under spelling x
func pathSpelling(dir, t string, x int) string {
	if t == "g1" {
		t = "sub/f1"
	}
	switch x {
	case 1:
		return "`./" + t + ".csv`"
	case 2:
		return "`" + filepath.Join(dir, t+".csv") + "`"
	case 3:
		return "`" + dir + "/./" + t + ".csv`"
	}
	return "`" + dir + "/sub/../" + t + ".csv`"
}

func txnExec(p *sut.Proc, a Action) Out {
	switch actName(a) {
	case "chdir":
		d := p.Dir
		if aInt(a, "k") == 1 {
			d = filepath.Join(p.Dir, "sub")
		}
		r := p.Exec("SET @@REPOSITORY TO '" + d + "';")
		if r.Err != "" {
			return Out{K: "err", E: errClass(r), Vals: []string{}}
		}
		return Out{K: "ok", Vals: []string{}}
	case "selectpath":
		r := p.Exec("SELECT * FROM " + pathSpelling(p.Dir, aStr(a, "t"), aInt(a, "x")) + ";")
		if r.Err != "" {
			return Out{K: "err", E: errClass(r), Vals: []string{}}
		}
		return Out{K: "val", Vals: showTable(r.Out)}
	case "insertpath":
		r := p.Exec(fmt.Sprintf("INSERT INTO %s VALUES (%d, 1);", pathSpelling(p.Dir, aStr(a, "t"), aInt(a, "x")), aInt(a, "k")))
		if r.Err != "" {
			return Out{K: "err", E: errClass(r), Vals: []string{}}
		}
		n, ok := countOf(r.Out + r.Log)
		if !ok {
			return Out{K: "val", Vals: []string{"no-count-reported:" + strings.TrimSpace(r.Out)}}
		}
		return Out{K: "val", Vals: []string{n}}
	case "selectd":
		r := p.Exec(txnSQL(a))
		if r.Err != "" {
			return Out{K: "err", E: errClass(r), Vals: []string{}}
		}
		v := showTable(r.Out)
		return Out{K: "val", Vals: v[len(v)-1:]}
	case "selectagg":
		r := p.Exec(txnSQL(a))
		if r.Err != "" {
			return Out{K: "err", E: errClass(r), Vals: []string{}}
		}
		v := showTable(r.Out)
		if len(v) == 4 {
			return Out{K: "val", Vals: v[2:]}
		}
		return Out{K: "val", Vals: v}
	case "select", "selectsub", "selectfn", "selectinline", "selectcase":
		r := p.Exec(txnSQL(a))
		if r.Err != "" {
			return Out{K: "err", E: errClass(r), Vals: []string{}}
		}
		return Out{K: "val", Vals: showTable(r.Out)}
	case "disk":
		if c, _ := p.User["created"].(bool); c && aStr(a, "t") == "f3" {
			if _, err := os.Stat(filepath.Join(p.Dir, "f3.csv")); err == nil {
				return Out{K: "val", Vals: []string{"CREATED"}}
			}
			return Out{K: "val", Vals: []string{"CREATED-BUT-NO-FILE"}}
		}
		return Out{K: "val", Vals: showFile(fileOf(p.Dir, aStr(a, "t")), true)}
	case "env":
		return envCommit(p, aStr(a, "t"))
	case "create", "commit", "rollback", "setenc", "createas", "callnoop", "nestexec", "nestsource", "nestprep", "createifnot":
		_, statErr := os.Stat(filepath.Join(p.Dir, "f3.csv"))
		sql := txnSQL(a)
		if actName(a) == "nestsource" {
			sql = "SOURCE `" + filepath.Join(p.Dir, "nest.sql") + "`;"
		}
		r := p.Exec(sql)
		if r.Err != "" {
			return Out{K: "err", E: errClass(r), Vals: []string{}}
		}
		// the harness's own note of "f3 is created and not yet committed" (for what the disk action may see)
		switch actName(a) {
		case "create", "createas":
			p.User["created"] = true
		case "createifnot":
			if aStr(a, "t") == "f3" && statErr != nil {
				p.User["created"] = true
			}
		case "commit", "rollback":
			p.User["created"] = false
		}
		return Out{K: "ok", Vals: []string{}}
	}
	sql := txnSQL(a)
	if sql == "" {
		core.Fail("unknown txn action %v", a)
	}
	r := p.Exec(sql)
	if r.Err != "" {
		return Out{K: "err", E: errClass(r), Vals: []string{}}
	}
	if actName(a) == "deletetwo" {
		// one count per table, in the order (t, u) whatever the order of the lines
		vals := []string{"no-count-reported", "no-count-reported"}
		for _, m := range reCountOn.FindAllStringSubmatch(r.Out+r.Log, -1) {
			n := m[1]
			if n == "no" {
				n = "0"
			}
			for i, f := range []string{aStr(a, "t"), aStr(a, "u")} {
				if m[2] == fileOf(p.Dir, f) {
					vals[i] = n
				}
			}
		}
		return Out{K: "val", Vals: vals}
	}
	n, ok := countOf(r.Out + r.Log)
	if !ok {
		return Out{K: "val", Vals: []string{"no-count-reported:" + strings.TrimSpace(r.Out)}}
	}
	return Out{K: "val", Vals: []string{n}}
}

// envCommit: another csvq transaction appends a row (all columns = 90 + number of earlier env commits) and commits.
func envCommit(p *sut.Proc, f string) Out {
	path := fileOf(p.Dir, f)
	b, err := os.ReadFile(path)
	if err != nil {
		core.Fail("env: %v", err)
	}
	lines := strings.Split(strings.TrimRight(string(b), "\n"), "\n")
	ncol := len(strings.Split(lines[0], ","))
	n, _ := p.User["envn"].(int)
	e, err := sut.NewProc(p.Dir, nil)
	if err != nil {
		core.Fail("env proc: %v", err)
	}
	defer e.End()
	e.Tx.WaitTimeout = 50 * time.Millisecond
	e.Tx.RetryDelay = 2 * time.Millisecond
	vals := make([]string, ncol)
	for i := range vals {
		vals[i] = fmt.Sprintf("%d", 90+n)
	}
	r := e.Exec(fmt.Sprintf("INSERT INTO %s VALUES (%s); COMMIT;", tname(f), strings.Join(vals, ", ")))
	if r.Err != "" {
		return Out{K: "err", E: errClass(r), Vals: []string{}}
	}
	p.User["envn"] = n + 1
	return Out{K: "ok", Vals: []string{}}
}

func txnSig(a Action, exp, obs Out) string {
	s := "txn:" + actName(a)
	t := aStr(a, "t")
	if t == "tt" {
		s += ":temp"
	} else if t != "" {
		s += ":file"
	}
	switch {
	case obs.K == "err" && exp.K != "err":
		s += ":unexpected-err=" + obs.E
	case obs.K == "err":
		s += ":err=" + obs.E
	case exp.K == "err":
		s += ":missing-err=" + exp.E
	case strings.HasPrefix(actName(a), "select") || actName(a) == "disk":
		s += ":contents"
	default:
		s += ":count"
	}
	return s
}

func txnA(act, t string, k, x int) Action { return Action{"act": act, "t": t, "k": k, "x": x, "u": ""} }
func txnA2(act, t, u string) Action       { return Action{"act": act, "t": t, "k": 0, "x": 0, "u": u} }
func txnA3(act, u string, k int) Action   { return Action{"act": act, "t": "", "k": k, "x": 0, "u": u} }

// txnRandom: longer histories over bigger tables (around the 160-row threshold of parallel evaluation)
func txnRandom(r *core.Run, hk int, flavour string) (Action, []Action) {
	rng := r.Rand
	sizes := []int{0, 1, 3, 12, 79, 161, 170, 330}
	mkT := func(n int) jtable {
		t := jtable{Cols: []string{"id", "v"}, Rows: [][]int{}}
		for i := 1; i <= n; i++ {
			id := i
			if rng.Intn(10) == 0 && i > 1 {
				id = 1 + rng.Intn(i) // duplicate keys
			}
			t.Rows = append(t.Rows, []int{id, rng.Intn(10)})
		}
		return t
	}
	n1, n2 := sizes[rng.Intn(len(sizes))], sizes[rng.Intn(len(sizes))]
	if flavour == "fail" && hk%8 == 3 {
		// a COMMIT that fails after several output buffers of the file have been produced (the text Shift_JIS cannot spell
		// comes last in a table of more than 4 KiB), a session that goes on, a much shorter table, and COMMIT again
		n1 = 900 + rng.Intn(300)
		init := Action{"disk": map[string]jtable{"f1": mkT(n1), "f2": mkT(3), "f3": {Cols: []string{}, Rows: [][]int{}, Absent: true}}}
		acts := []Action{txnA("setenc", "f1", 0, 0), txnA("inserth", "f1", n1+1, 0), txnA("update", "f2", 1, 0), txnA("commit", "", 0, 0),
			txnA("disk", "f1", 0, 0), txnA("disk", "f2", 0, 0)}
		if rng.Intn(2) == 0 {
			acts = append(acts, txnA("delete", "f1", 0, 0))
		} else {
			for k := 0; k < 3; k++ {
				acts = append(acts, txnA("delete", "f1", 1+rng.Intn(5), 0))
			}
			acts = append(acts, txnA("delete", "f1", n1+1, 0))
		}
		acts = append(acts, txnA("select", "f1", 0, 0), txnA("commit", "", 0, 0), txnA("disk", "f1", 0, 0), txnA("disk", "f2", 0, 0), txnA("select", "f1", 0, 0))
		return init, acts
	}
	init := Action{"disk": map[string]jtable{"f1": mkT(n1), "f2": mkT(n2), "f3": {Cols: []string{}, Rows: [][]int{}, Absent: true}, "g1": mkT(4)}}
	tabs := []string{"f1", "f1", "f2", "tt", "f3", "g1"}
	cwd := "top"
	var acts []Action
	n := 18 + rng.Intn(25)
	for i := 0; i < n; i++ {
		// now and then the repository changes: in the sub-directory the name f1 means another file (g1 of the specification),
		// and only f1 and the temporary table have names there
		if rng.Intn(14) == 0 {
			if cwd == "top" {
				cwd = "sub"
				acts = append(acts, txnA("chdir", "", 1, 0))
			} else {
				cwd = "top"
				acts = append(acts, txnA("chdir", "", 0, 0))
			}
		}
		before := len(acts)
		t := tabs[rng.Intn(len(tabs))]
		if cwd == "sub" {
			t = []string{"f1", "tt"}[rng.Intn(2)]
		}
		key := func() int {
			m := n1
			if t == "f2" {
				m = n2
			}
			if rng.Intn(4) == 0 {
				return m + 1 + rng.Intn(5)
			}
			return 1 + rng.Intn(m+1)
		}
		x := rng.Intn(100)
		switch {
		case x < 2:
			switch rng.Intn(4) {
			case 0:
				acts = append(acts, txnA("setenc", t, 0, 0))
			case 1:
				acts = append(acts, txnA("inserth", t, key(), 0))
			case 2:
				acts = append(acts, txnA3("createas", []string{"f1", "f2", "tt"}[rng.Intn(3)], rng.Intn(4)))
			default:
				k := key()
				if rng.Intn(3) == 0 {
					k = 0
				}
				acts = append(acts, txnA("updateswap", t, k, 0))
			}
		case x < 4:
			switch rng.Intn(4) {
			case 0:
				acts = append(acts, txnA("insertd", t, key(), 0))
			case 1:
				acts = append(acts, txnA([]string{"deleted", "selectd"}[rng.Intn(2)], t, 0, 0))
			default:
				acts = append(acts, Action{"act": "insertsub", "t": t, "u": []string{"f1", "f2", "tt"}[rng.Intn(3)], "k": key(), "x": rng.Intn(2)})
			}
		case x < 6:
			if t != "tt" && rng.Intn(3) == 0 {
				kind := []string{"selectfn", "selectinline"}[rng.Intn(2)]
				if t == "f3" {
					kind = "selectfn" // (CSV_INLINE of a table that is created and not yet committed reads a placeholder file: not specified)
				}
				acts = append(acts, txnA(kind, t, 0, 0))
				break
			}
			acts = append(acts, txnA([]string{"selectsub", "selectagg"}[rng.Intn(2)], t, 0, 0))
		case x < 9:
			u := []string{"f1", "f2", "tt"}[rng.Intn(3)]
			if rng.Intn(2) == 0 {
				acts = append(acts, txnA2("insertsel", t, u))
			} else if u != t {
				acts = append(acts, txnA2([]string{"updatejoin", "deletejoin"}[rng.Intn(2)], t, u))
			}
		case x < 11:
			acts = append(acts, txnA([]string{"insertcols", "insertbad2", "addfail", "insertdup"}[rng.Intn(4)], t, key(), 0))
		case x < 12:
			acts = append(acts, txnA("addfirst", t, 0, 0))
		case x < 22:
			acts = append(acts, txnA("select", t, 0, 0))
		case x < 30:
			acts = append(acts, txnA("insert1", t, key(), rng.Intn(10)))
		case x < 35:
			acts = append(acts, txnA("insert2", t, key(), rng.Intn(10)))
		case x < 47:
			k := key()
			if rng.Intn(3) == 0 {
				k = 0
			}
			acts = append(acts, txnA("update", t, k, 0))
		case x < 55:
			k := key()
			if rng.Intn(8) == 0 {
				k = 0
			}
			acts = append(acts, txnA("delete", t, k, 0))
		case x < 60:
			acts = append(acts, txnA("replace", t, key(), rng.Intn(10)))
		case x < 63:
			acts = append(acts, txnA([]string{"replace3", "replacedup"}[rng.Intn(2)], t, key(), rng.Intn(10)))
		case x < 67:
			acts = append(acts, txnA([]string{"addcol", "dropcol", "renamevu", "renameuv"}[rng.Intn(4)], t, 0, 0))
		case x < 70:
			acts = append(acts, txnA("create", "", 0, 0))
		case x < 76:
			acts = append(acts, txnA("commit", "", 0, 0))
		case x < 81:
			acts = append(acts, txnA("rollback", "", 0, 0))
		case x < 86:
			acts = append(acts, txnA("disk", []string{"f1", "f2", "f3"}[rng.Intn(3)], 0, 0))
		default:
			switch flavour {
			case "fail":
				if rng.Intn(2) == 0 {
					acts = append(acts, txnA("updatefail", t, key(), 0))
				} else {
					acts = append(acts, txnA("insertbad", t, 0, 0))
				}
				acts = append(acts, txnA("select", t, 0, 0))
			case "env":
				f := []string{"f1", "f2"}[rng.Intn(2)]
				acts = append(acts, txnA("env", f, 0, 0), txnA([]string{"select", "select", "selectfn", "selectsub", "selectpath", "selectinline"}[rng.Intn(6)], f, 0, 1+rng.Intn(4)))
			default:
				acts = append(acts, txnA("select", t, 0, 0))
			}
		}
		if cwd == "sub" {
			// what cannot be said in the sub-directory is replaced by a read of f1
			for k := before; k < len(acts); k++ {
				a := acts[k]
				n, t2, u2 := actName(a), aStr(a, "t"), aStr(a, "u")
				free := n == "env" || n == "disk" || n == "commit" || n == "rollback" || n == "callnoop"
				ok := (t2 == "f1" || t2 == "tt" || t2 == "") && (u2 == "f1" || u2 == "tt" || u2 == "") && n != "create" && n != "createas" && n != "selectpath" && n != "insertpath"
				if !free && !ok {
					acts[k] = txnA("select", "f1", 0, 0)
				}
			}
		}
	}
	acts = append(acts, txnA("chdir", "", 0, 0), txnA("commit", "", 0, 0), txnA("disk", "f1", 0, 0), txnA("disk", "f2", 0, 0), txnA("disk", "f3", 0, 0), txnA("disk", "g1", 0, 0))
	return init, acts
}

// ---------------------------------------------------------------------------
// C01: whole procedures run by the real binary (csvq -s file). TLC (TxnScriptGen, script mode) chooses
// the statements, whether the run ends normally (auto-commit), by EXIT or by the first failing
// statement, and tells what every SELECT shows and what every file holds afterwards.
// ---------------------------------------------------------------------------

type c01beh struct {
	init  Action
	acts  []Action
	exps  []Out
	how   string
	final map[string][]string
}

func runC01(r *core.Run) {
	r.Assume = []string{
		"TLC explores the specification exhaustively only within the constants of the MC configuration (depth-bounded)",
		"procedures are straight-line statement lists over two file tables, a created table and a temporary table; control flow around COMMIT/ROLLBACK is not generated here",
		"interrupts at statement positions are covered by the signal enumeration of C11, not here",
	}
	states, trans := 0, 0
	mcCfgs := []string{"TxnMC_q.cfg", "TxnMC_env_q.cfg"}
	if r.Thorough {
		mcCfgs = append(mcCfgs, "TxnMC.cfg", "TxnMC_env.cfg")
	}
	for _, c := range mcCfgs {
		m := r.MustHold(core.TLCOpts{Module: "TxnMC", Cfg: c, Workers: 12, Timeout: 40 * time.Minute})
		states += m.Distinct
		trans += m.Generated
	}
	r.Coverage["states"] = states
	r.Coverage["transitions"] = trans
	nsim := 300
	if r.Thorough {
		nsim = 4000
	}
	n := txnScriptReplay(r, []string{"TxnScriptGen.cfg", "TxnScriptGen_commitfail.cfg", "TxnScriptGen_create.cfg", "TxnScriptGen_temp.cfg", "TxnScriptGen_two.cfg", "TxnScriptGen_nested.cfg", "TxnScriptGen_dirs.cfg"}, nsim, "c01")
	c01Interrupts(r)
	c01Unencodable(r)
	r.Coverage["traces_validated_against_impl"] = n
	r.Coverage["exhaustive"] = false
}

// txnScriptReplay: TLC (TxnScriptGen, script mode) writes whole procedures; each is run by the real binary and stdout, exit
// code and files are compared with what the specification says.  pre: prefix of the signatures (the check that asked).
func txnScriptReplay(r *core.Run, cfgs []string, nsim int, pre string) int {
	var behs []c01beh
	for gi, gcfg := range cfgs {
		ns := nsim
		if gi > 0 {
			ns = nsim * 2
		}
		r.RunTLC(core.TLCOpts{Module: "TxnScriptGen", Cfg: gcfg, Workers: 1, Simulate: fmt.Sprintf("num=%d", ns), Depth: 60,
			Seed: r.Seed*17 + int64(gi), Timeout: 20 * time.Minute,
			OnTrace: func(raw json.RawMessage) {
				if !r.Distinct("beh:" + string(raw)) {
					return
				}
				var steps []json.RawMessage
				if err := json.Unmarshal(raw, &steps); err != nil || len(steps) < 2 {
					core.Fail("bad behaviour: %v", err)
				}
				var b c01beh
				_ = json.Unmarshal(steps[0], &b.init)
				for _, st := range steps[1:] {
					var x struct {
						A     Action              `json:"a"`
						Exp   Out                 `json:"exp"`
						Final map[string][]string `json:"final"`
					}
					if err := json.Unmarshal(st, &x); err != nil {
						core.Fail("bad step: %v", err)
					}
					if actName(x.A) == "end" {
						b.how = aStr(x.A, "t")
						b.final = x.Final
					} else {
						b.acts = append(b.acts, x.A)
						b.exps = append(b.exps, x.Exp)
					}
				}
				if b.final != nil {
					behs = append(behs, b)
				}
			}})
	}
	type res struct{ sig, what string }
	results := make([]res, len(behs))
	runOne := func(i int, b c01beh) res {
		dir := r.Dir(fmt.Sprintf("c01.%d", i))
		defer os.RemoveAll(dir)
		repo := filepath.Join(dir, "repo")
		_ = os.MkdirAll(filepath.Join(repo, "sub"), 0755)
		initBytes := map[string]string{}
		for f, t := range txnInitTables(b.init) {
			if !t.Absent {
				initBytes[f] = tableBytes(f, t)
				writeFile(fileOf(repo, f), initBytes[f])
			}
		}
		writeFile(filepath.Join(repo, "nest.sql"), "@z := 1;\n")
		// another process that appends a row (all columns 90 + n) to a table and commits: an external command of the procedure
		writeFile(filepath.Join(dir, "env.sh"), "f=$1; n=$2; cols=$(head -1 \"$3/$f.csv\" | tr ',' '\\n' | wc -l); vals=$n; i=1; while [ $i -lt $cols ]; do vals=\"$vals, $n\"; i=$((i+1)); done\n"+
			"exec \"$4\" --repository \"$3\" --quiet --wait-timeout 0.3 \"INSERT INTO \\`$f.csv\\` VALUES ($vals); COMMIT;\"\n")
		envn := 0
		var sql strings.Builder
		sql.WriteString(strings.Join(txnPreamble, "\n") + "\n")
		var selects []Out
		var selectAgg, selectD []bool
		attrChanged := map[string]bool{} // SET ENCODING is a change of the file although the table stays the same
		for k, a := range b.acts {
			if actName(a) == "setenc" {
				attrChanged[aStr(a, "t")] = true
			}
			if actName(a) == "env" {
				fmt.Fprintf(&sql, "$sh %s %s %d %s %s;\n", filepath.Join(dir, "env.sh"), aStr(a, "t"), 90+envn, repo, r.Csvq)
				envn++
				continue
			}
			if actName(a) == "nestsource" {
				fmt.Fprintf(&sql, "SOURCE `%s`;\n", filepath.Join(repo, "nest.sql"))
				continue
			}
			if actName(a) == "chdir" {
				d := repo
				if aInt(a, "k") == 1 {
					d = filepath.Join(repo, "sub")
				}
				fmt.Fprintf(&sql, "SET @@REPOSITORY TO '%s';\n", d)
				continue
			}
			sql.WriteString(txnSQL(a))
			sql.WriteByte('\n')
			if n := actName(a); (n == "select" || n == "selectsub" || n == "selectagg" || n == "selectfn" || n == "selectinline" || n == "selectd") && b.exps[k].K == "val" {
				selects = append(selects, b.exps[k])
				selectAgg = append(selectAgg, n == "selectagg")
				selectD = append(selectD, n == "selectd")
			}
		}
		wantExit := 0
		if b.how == "exit" {
			sql.WriteString("EXIT 3;\n")
			wantExit = 3
		}
		if b.how == "exit0" {
			sql.WriteString("EXIT;\n")
		}
		writeFile(filepath.Join(dir, "prog.sql"), sql.String())
		rs := sut.RunBin(sut.BinOpts{Csvq: r.Csvq, Dir: dir, Args: []string{"--repository", repo, "--format", "JSON", "--quiet", "--source", filepath.Join(dir, "prog.sql")}, Timeout: 60 * time.Second})
		ctx := fmt.Sprintf("program:\n%send=%s exit=%d stderr=%s", sql.String(), b.how, rs.Exit, firstLine(rs.Stderr))
		if rs.IsFatal() {
			return res{pre + ":fatal", "internal failure\n" + ctx}
		}
		switch b.how {
		case "error", "commitfail":
			if rs.Exit == 0 {
				return res{pre + ":error-end:exit0", "a failing statement did not end the run with an error\n" + ctx}
			}
		default:
			if rs.Exit != wantExit {
				return res{fmt.Sprintf("%s:%s-end:exit", pre, b.how), fmt.Sprintf("exit code %d, expected %d\n%s", rs.Exit, wantExit, ctx)}
			}
		}
		// what the SELECTs showed
		ts, err := sut.ParseJSONTables(rs.Stdout)
		if err != nil {
			return res{pre + ":stdout", "cannot parse stdout: " + err.Error() + "\n" + ctx}
		}
		if len(ts) != len(selects) {
			return res{pre + ":select-count", fmt.Sprintf("%d result sets printed, %d expected\n%s", len(ts), len(selects), ctx)}
		}
		for k, t := range ts {
			got := []string{"EMPTY"}
			if len(t.Rows) > 0 {
				got = append([]string{}, t.Header...)
				for _, row := range t.Rows {
					for _, c := range row {
						got = append(got, showCell(c.String()))
					}
				}
			}
			if selectAgg[k] && len(got) == 4 {
				got = got[2:]
			}
			if selectD[k] {
				got = got[len(got)-1:]
			}
			if !sameOut(Out{K: "val", Vals: got}, selects[k]) {
				return res{pre + ":select-contents", fmt.Sprintf("SELECT number %d shows %v, specification %v\n%s", k+1, got, selects[k].Vals, ctx)}
			}
		}
		// the files afterwards
		for f, want := range b.final {
			got := showFile(fileOf(repo, f), false)
			if !sameOut(Out{K: "val", Vals: got}, Out{K: "val", Vals: want}) {
				kind := "changed-table"
				if len(want) == 1 && want[0] == "ABSENT" {
					kind = "created-file-left"
				} else if len(got) == 1 && got[0] == "ABSENT" {
					kind = "file-missing"
				}
				return res{pre + ":" + b.how + "-end:" + kind, fmt.Sprintf("after the run %s.csv holds %v, specification %v\n%s", f, got, want, ctx)}
			}
			// files never written stay byte-identical
			if ib, ok := initBytes[f]; ok && !attrChanged[f] {
				init := showFileContent(ib)
				if sameOut(Out{K: "val", Vals: init}, Out{K: "val", Vals: want}) {
					if nb, _ := os.ReadFile(fileOf(repo, f)); string(nb) != ib {
						return res{pre + ":untouched-bytes", fmt.Sprintf("%s.csv has the same table but different bytes\n%s", f, ctx)}
					}
				}
			}
		}
		if l := sut.ControlFiles(repo); len(l) > 0 {
			return res{pre + ":control-files", fmt.Sprintf("left behind: %v\n%s", l, ctx)}
		}
		return res{}
	}
	core.Parallel(len(behs), 8, func(i int) { results[i] = runOne(i, behs[i]) })
	reported := map[string]bool{}
	unrep := 0
	for i, x := range results {
		r.Count("procedures_run_"+behs[i].how, 1)
		for k, a := range behs[i].acts {
			r.Count("step:"+actName(a)+":"+behs[i].exps[k].K, 1)
		}
		if i < 2 {
			var prog []string
			for _, a := range behs[i].acts {
				prog = append(prog, txnSQL(a))
			}
			r.Sample(map[string]interface{}{"program": prog, "end": behs[i].how, "final": behs[i].final})
		}
		if x.sig == "" || reported[x.sig] {
			continue
		}
		// an outcome that depends on an unordered iteration (which of two changed files is written first) shows in some
		// runs only: several attempts; what never shows again is noted, not reported
		again := runOne(1000000+i, behs[i])
		for try := 1; again.sig == "" && try < 12; try++ {
			again = runOne(1000000+i*16+try, behs[i])
		}
		if again.sig == "" {
			unrep++
			fmt.Printf("NOTE property=C01 unreproduced mismatch %s: %s\n", x.sig, firstLine(x.what))
			r.Coverage["unreproduced_mismatches"] = unrep
			if unrep > 5 {
				core.Fail("C01: %d mismatches that do not reproduce", unrep)
			}
			continue
		}
		reported[x.sig] = true
		r.Violation(again.sig, again.what, map[string]interface{}{"init": behs[i].init, "actions": behs[i].acts, "end": behs[i].how, "final": behs[i].final})
	}
	return len(behs)
}

func showFileContent(content string) []string {
	lines := strings.Split(strings.TrimRight(strings.TrimPrefix(content, bom), "\n"), "\n")
	if len(lines) <= 1 {
		return []string{"EMPTY"}
	}
	var l []string
	for i, ln := range lines {
		for _, c := range strings.Split(ln, ",") {
			c = strings.Trim(c, "\"")
			if i > 0 && c == "" {
				c = "NULL"
			}
			l = append(l, showCell(c))
		}
	}
	return l
}

// c01Interrupts: a procedure ended by an interrupt - and by a second one while it winds down - leaves every table as it
// was at the most recent COMMIT, or, if the interrupt came too late to stop the COMMIT, as that COMMIT leaves them: all
// of its tables, never some.  Procedure: two updated tables and a created one, COMMIT, a further change, end.  One run per
// hook point x signal (a second signal at the first and at the middle point the signalled run visits afterwards).
func c01Interrupts(r *core.Run) {
	sc := binScenario{Name: "c01int", Tables: map[string]string{"f1.csv": rowsCSV(3, 0), "f2.csv": rowsCSV(40, 0)},
		SQL: "UPDATE `f1.csv` SET n = n + 1;\nUPDATE `f2.csv` SET n = n + 1;\nCREATE TABLE `f3.csv` (n);\nINSERT INTO `f3.csv` VALUES (5);\nCOMMIT;\nUPDATE `f1.csv` SET n = n + 1;\nCREATE TABLE `f4.csv` (n);\n"}
	// the committed states: before the COMMIT, after the COMMIT, after the end of the procedure (automatic commit)
	states := []map[string]string{copyMap(sc.Tables)}
	for _, sql := range []string{sc.SQL[:strings.Index(sc.SQL, "COMMIT;\n")+8], sc.SQL} {
		pre := sc
		pre.SQL = sql
		snap, res, _ := runSignalScenario(r, pre, nil)
		if res.Exit != 0 {
			core.Fail("c01 interrupts: reference run failed: %s", res.Stderr)
		}
		states = append(states, snap)
	}
	_, _, points := runSignalScenario(r, sc, nil)
	type job struct {
		env []string
		id  string
	}
	var jobs []job
	enc := 0
	for k, p := range points {
		if p.Point == "signal.seen" {
			continue
		}
		if p.Point == "encode.row" {
			enc++
			if enc > 2 && enc%17 != 0 {
				continue
			}
		}
		sig := []string{"INT", "TERM", "QUIT"}[k%3]
		jobs = append(jobs, job{[]string{"VERIF_SIGNAL_AT=" + p.ID + ":" + sig}, p.ID + ":" + sig})
	}
	first := len(jobs)
	after := make([][]string, first)
	core.Parallel(first, 8, func(i int) {
		if i%2 != 0 {
			return
		}
		sub := sc
		sub.Name = fmt.Sprintf("c01int.pre%d", i)
		_, _, pts := runSignalScenario(r, sub, jobs[i].env)
		seen := false
		for _, p := range pts {
			if p.Point == "signal.seen" {
				seen = true
			} else if seen && p.Point != "encode.row" {
				after[i] = append(after[i], p.ID)
			}
		}
	})
	for i := 0; i < first; i++ {
		if n := len(after[i]); n > 0 {
			for _, k := range []int{0, n / 2, n - 1} {
				jobs = append(jobs, job{append(append([]string{}, jobs[i].env...), "VERIF_SIGNAL2_AT="+after[i][k]+":"+[]string{"TERM", "INT"}[k%2]), jobs[i].id + "+" + after[i][k]})
			}
		}
	}
	what := make([]string, len(jobs))
	core.Parallel(len(jobs), 8, func(i int) {
		sub := sc
		sub.Name = fmt.Sprintf("c01int.%d", i)
		snap, res, _ := runSignalScenario(r, sub, jobs[i].env)
		switch {
		case res.Signaled:
			what[i] = "the process was killed by the signal instead of ending the procedure"
		case res.IsFatal():
			what[i] = "internal failure: " + firstLine(res.Stderr)
		default:
			ok := false
			for _, st := range states {
				same := len(st) == len(snap)
				for n, c := range st {
					if snap[n] != c {
						same = false
					}
				}
				ok = ok || same
			}
			if !ok {
				what[i] = fmt.Sprintf("the directory is in none of the committed states (exit %d): %v", res.Exit, describeSnap(snap))
			}
		}
	})
	rep := false
	for i, w := range what {
		r.Distinct("c01int:" + jobs[i].id)
		if w != "" && !rep {
			rep = true
			kind := "interrupt"
			if strings.Contains(jobs[i].id, "+") {
				kind = "second-interrupt"
			}
			r.Violation("c01:"+kind+":not-all-or-nothing", fmt.Sprintf("procedure %q, signals at %s: %s", sc.SQL, jobs[i].id, w), map[string]interface{}{"sql": sc.SQL, "signals": jobs[i].id})
		}
	}
	r.Coverage["interrupted_procedures"] = len(jobs)
}

func describeSnap(snap map[string]string) []string {
	var l []string
	for n, c := range snap {
		l = append(l, fmt.Sprintf("%s:%dB:%q", n, len(c), firstLine(c+"\n"+lastLine(c))))
	}
	sort.Strings(l)
	return l
}

func lastLine(s string) string {
	s = strings.TrimRight(s, "\n")
	if i := strings.LastIndex(s, "\n"); i >= 0 {
		return s[i+1:]
	}
	return s
}

// c01Unencodable: a procedure whose last state cannot be written in the table's format (JSON Lines: two columns whose names
// are conflicting paths; LTSV: a tab in a value; Shift_JIS: a character it does not have) ends by an error at the automatic
// COMMIT - or at its own COMMIT - and then every file, the other changed tables too, is as it was.
func c01Unencodable(r *core.Run) {
	jl := "{\"id\":1,\"status\":\"open\"}\n{\"id\":2,\"status\":\"open\"}\n{\"id\":3,\"status\":\"done\"}\n"
	lt := "id:1\tc:x\nid:2\tc:y\n"
	for _, sc := range []binScenario{
		{Name: "unenc.jsonl", Tables: map[string]string{"e.jsonl": jl, "f2.csv": rowsCSV(3, 0)},
			SQL: "UPDATE `f2.csv` SET n = n + 1;\nUPDATE `e.jsonl` SET status = 'done' WHERE id = 2;\nALTER TABLE `e.jsonl` ADD `status.code` DEFAULT 0;\nSELECT COUNT(*) FROM `e.jsonl`;\n"},
		{Name: "unenc.jsonl.commit", Tables: map[string]string{"e.jsonl": jl, "f2.csv": rowsCSV(3, 0)},
			SQL: "ALTER TABLE `e.jsonl` ADD `status.code` DEFAULT 0;\nUPDATE `f2.csv` SET n = n + 1;\nCOMMIT;\nUPDATE `f2.csv` SET n = n + 1;\n"},
		{Name: "unenc.ltsv", Tables: map[string]string{"t.ltsv": lt, "f2.csv": rowsCSV(3, 0)},
			SQL: "UPDATE `f2.csv` SET n = n + 1;\nUPDATE `t.ltsv` SET c = 'a\\tb' WHERE id = 2;\nCREATE TABLE `f3.csv` (n);\n"},
		{Name: "unenc.sjis", Tables: map[string]string{"t.tsv": "id\tc\n1\tx\n2\ty\n", "f2.csv": rowsCSV(3, 0)},
			SQL: "ALTER TABLE `t.tsv` SET ENCODING TO SJIS;\nUPDATE `t.tsv` SET c = '한' WHERE id = 1;\nUPDATE `f2.csv` SET n = n + 1;\nCOMMIT;\n"},
	} {
		snap, res, _ := runSignalScenario(r, sc, nil)
		what := ""
		switch {
		case res.IsFatal():
			what = "internal failure: " + firstLine(res.Stderr)
		case res.Exit == 0:
			what = "the procedure ended successfully although its last state cannot be written: " + fmt.Sprint(describeSnap(snap))
		default:
			for n, c := range sc.Tables {
				if snap[n] != c {
					what = fmt.Sprintf("the procedure ended by an error (exit %d: %s) but %s was changed: %v", res.Exit, firstLine(res.Stderr), n, describeSnap(snap))
				}
			}
			if len(snap) != len(sc.Tables) {
				what = fmt.Sprintf("the procedure ended by an error (exit %d) but the directory holds %v", res.Exit, describeSnap(snap))
			}
		}
		r.Count("unencodable_procedures", 1)
		if what != "" {
			r.Violation("c01:unencodable:"+strings.TrimPrefix(sc.Name, "unenc."), fmt.Sprintf("procedure %q: %s", sc.SQL, what), map[string]interface{}{"sql": sc.SQL})
		}
	}
}

// c08Attributes: a failing statement leaves the table's attributes as they were, too - format, delimiter, delimiter
// positions, encoding, line break, header (what SHOW FIELDS tells) - and a later COMMIT writes the table in the layout it
// had: tables of several formats, a change, a series of failing statements, SHOW FIELDS before and after, COMMIT, fresh read.
func c08Attributes(r *core.Run) {
	type variant struct{ name, file, content, pre string }
	vs := []variant{
		{"FIXED:positions", "t.txt", "id item  qty\n1  apple 10 \n2  kiwi  200\n3  fig   3  \n", "SET @@IMPORT_FORMAT TO FIXED; SET @@DELIMITER_POSITIONS TO '[3, 9, 12]';"},
		{"FIXED:spaces", "t.txt", "id item  qty\n1  apple 10 \n2  kiwi  200\n3  fig   3  \n", "SET @@IMPORT_FORMAT TO FIXED;"},
		{"CSV:semicolon", "t.csv", "id;item;qty\r\n1;apple;10\r\n2;kiwi;200\r\n3;fig;3\r\n", "SET @@DELIMITER TO ';';"},
		{"TSV", "t.tsv", "id\titem\tqty\n1\tapple\t10\n2\tkiwi\t200\n3\tfig\t3\n", ""},
		{"LTSV", "t.ltsv", "id:1\titem:apple\tqty:10\nid:2\titem:kiwi\tqty:200\nid:3\titem:fig\tqty:3\n", ""},
		{"JSONL", "t.jsonl", "{\"id\":1,\"item\":\"apple\",\"qty\":10}\n{\"id\":2,\"item\":\"kiwi\",\"qty\":200}\n{\"id\":3,\"item\":\"fig\",\"qty\":3}\n", ""},
	}
	want := "1|apple|10;2|pear|200;3|fig|3"
	for vi, v := range vs {
		dir := r.Dir(fmt.Sprintf("attr%d", vi))
		writeFile(filepath.Join(dir, v.file), v.content)
		t := "`" + v.file + "`"
		p, err := sut.NewProc(dir, nil)
		if err != nil {
			core.Fail("proc: %v", err)
		}
		_ = p.Tx.SetFormatFlag("TEXT", "")
		fields := func() string {
			rs := p.Exec("SHOW FIELDS FROM " + t + ";")
			return rs.Out + rs.Err
		}
		sig := "attributes:" + v.name
		if rs := p.Exec(v.pre + " UPDATE " + t + " SET item = 'pear' WHERE id = 2;"); rs.Err != "" {
			p.End()
			r.Violation(sig+":error", "UPDATE fails: "+firstLine(rs.Err), map[string]interface{}{"variant": v.name})
			continue
		}
		before := fields()
		nfail := 0
		for _, q := range []string{"ALTER TABLE %s ADD (z DEFAULT 1 %% (LEN(item) - 4));", "INSERT INTO %s VALUES (1);", "UPDATE %s SET qty = 1 %% 0;", "ALTER TABLE %s ADD (w DEFAULT nosuch);",
			"ALTER TABLE %s DROP nosuch;", "ALTER TABLE %s RENAME nosuch TO x;", "ALTER TABLE %s ADD (item);", "REPLACE INTO %s (id, item) USING (nosuch) VALUES (1, 'x');"} {
			if rs := p.Exec(fmt.Sprintf(q, t)); rs.Err != "" && !rs.Fatal {
				nfail++
			} else if rs.Fatal {
				r.Violation(sig+":fatal", fmt.Sprintf(q, t)+": "+firstLine(rs.Err), map[string]interface{}{"variant": v.name})
			}
		}
		after := fields()
		if before != after {
			r.Violation(sig+":changed-by-failing-statement", fmt.Sprintf("SHOW FIELDS of %s differs after %d failing statements:\n--- before\n%s\n--- after\n%s", v.file, nfail, before, after), map[string]interface{}{"variant": v.name})
		}
		rs := p.Exec("COMMIT;")
		p.End()
		if rs.Err != "" {
			r.Violation(sig+":commit", "COMMIT fails: "+firstLine(rs.Err), map[string]interface{}{"variant": v.name})
			continue
		}
		q, err := sut.NewProc(dir, nil)
		if err != nil {
			core.Fail("proc: %v", err)
		}
		q.Exec(v.pre)
		rr := q.Exec("SELECT id, item, qty FROM " + t + ";")
		got := "error: " + firstLine(rr.Err)
		if rr.Err == "" {
			if ts, err := sut.ParseJSONTables(rr.Out); err == nil && len(ts) == 1 {
				var rows []string
				for _, row := range ts[0].Rows {
					var cs []string
					for _, c := range row {
						cs = append(cs, c.String())
					}
					rows = append(rows, strings.Join(cs, "|"))
				}
				got = strings.Join(rows, ";")
			}
		}
		q.End()
		_ = os.RemoveAll(dir)
		if got != want {
			r.Violation(sig+":committed-layout", fmt.Sprintf("%s: after the failing statements and COMMIT a fresh read shows %q, expected %q", v.file, got, want), map[string]interface{}{"variant": v.name})
		}
		r.Count("attribute_histories", 1)
		r.Count("attribute_failing_statements", nfail)
	}
}
