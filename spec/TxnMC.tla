------------------------------- MODULE TxnMC -------------------------------
EXTENDS Txn
F1 == {"f1"}
F12 == {"f1", "f2"}
K13 == {1, 3}
K1 == {1}
V5 == {5}
\* statement families for the behaviour generators
ActsAll == {a \in Actions : a.act # "selectcase"}     \* (selectcase: a family of its own - csvq deviates there, a known finding)
Only(names) == {a \in Actions : a.act \in names}
\* COMMIT that cannot encode one of several changed files (f1 gets the encoding and the text; f2, NewFile are the others)
ActsCommitFail == {a \in Only({"setenc", "inserth"}) : a.t = "f1"}
                  \cup {a \in Only({"insert1", "delete"}) : a.t \in {"f2", NewFile} /\ a.k = 1}
                  \cup {a \in Only({"createas"}) : a.u = "f2" /\ a.k = 0}
                  \cup {a \in Only({"select", "disk"}) : a.t \in {"f1", NewFile}}
                  \cup Only({"create", "commit", "rollback"})
\* one statement that updates two tables
ActsTwo == Only({"updatetwo", "deletetwo", "select", "disk", "commit", "rollback", "env"}) \cup {a \in Only({"insert1", "delete"}) : a.t \in {"f1", "f2"} /\ a.k \in {1, 3}}
\* the temporary table and user-defined functions across transaction boundaries
ActsTemp == {a \in Only({"insert1", "update", "delete", "replace", "select", "callins", "updatefail", "insertbad", "addcol", "dropcol"}) : a.t = TempT /\ a.k \in {0, 1}}
            \cup {a \in Only({"insert1", "select", "callins"}) : a.t = "f1" /\ a.k = 1}
            \cup Only({"callnoop", "commit", "rollback"})
\* creating tables, failing and not, and what is left in the directory
\* (a small family: a random walk has to take two or three particular steps in a row - create, a failing statement
\* on the new table, a look at it - which it does not often enough among a hundred actions)
ActsCreate == {a \in Only({"insert1", "insertbad", "insertbad2", "insertdup", "replace", "updatefail", "addfail", "setenc", "select", "disk",
                            "renamevu", "dropcol", "delete", "inserth"}) : a.t = NewFile /\ a.k \in {0, 1}}
              \cup {a \in Only({"insertsel"}) : a.t = NewFile /\ a.u = "f1"}
              \cup {a \in Only({"createas"}) : a.u = "f1"}
              \cup Only({"create", "commit", "rollback"})
              \cup {a \in Only({"createifnot"}) : a.t \in {NewFile, "f1"}}
              \cup {a \in Only({"insert1", "update", "select", "disk"}) : a.t = "f1" /\ a.k \in {0, 1}}
\* typed cells (datetime values) and values taken from other tables' cells: written, compared, read again
ActsTyped == {a \in Only({"insertd", "deleted", "selectd", "select", "update", "updateswap", "delete", "replace", "insert1"}) : a.t \in {"f1", TempT} /\ a.k \in {0, 1}}
             \cup {a \in Only({"insertsub"}) : a.t \in {"f1", TempT} /\ a.u \in {"f1", "f2", TempT} /\ a.k = 1}
             \cup {a \in Only({"select", "selectd"}) : a.t = "f2"}
             \cup {a \in Only({"updatejoin", "insertsel"}) : a.t \in {"f1", TempT} /\ a.u \in {"f1", TempT}}
             \cup Only({"commit", "rollback"})
\* one name, two directories: the repository is changed between statements on f1
ActsDirs == Only({"chdir", "commit", "rollback"})
            \cup {a \in Only({"select", "insert1", "update", "delete", "selectagg", "disk", "replace", "insertsel", "callins"}) : a.t \in {"f1", "g1"} /\ a.k \in {0, 1} /\ a.u \in {"", "f1", "g1"}}
\* a name that differs from an existing table's in letter case only
ActsCase == {a \in Only({"selectcase", "select", "update", "insert1", "commit", "rollback", "disk"}) : a.t \in {"f1", ""} /\ a.k \in {0, 1}}
\* a table that is read, changed by another process, and then changed by this transaction: the first data-changing access
\* loads it again (the documented exception), so that the change is made to what is committed, not to what was read
ActsUpgrade == {a \in Only({"select", "selectsub", "selectagg", "env", "update", "insert1", "delete", "replace", "updateswap", "addcol", "disk"}) : a.t = "f1" /\ a.k \in {0, 1}}
               \cup {a \in Only({"insertsel", "updatejoin"}) : a.t = "f1" /\ a.u \in {"f1", TempT}}
               \cup Only({"commit", "rollback"})
\* reads of every form around commits of another process
ActsReads == Only({"select", "selectsub", "selectfn", "selectinline", "selectagg", "selectpath", "insertpath", "env", "update", "insertsel", "updatejoin", "commit", "rollback"})
\* a procedure that reads, executes nested statements and reads again while another process commits in between
ActsNested == Only({"select", "selectsub", "selectagg", "selectfn", "selectinline", "env", "nestexec", "nestsource", "nestprep", "callnoop"})
              \cup {a \in Only({"insert1", "update"}) : a.t \in {"f1", TempT} /\ a.k = 1}
\* the model-checking configurations (the depth-6 ones of the thorough tier too: the full action set does not end within 40 minutes) leave out the statements that name the sub-directory's file from the top
\* directory (`sub/f1.csv`): the file is reached through the name f1 after a change of the repository
NextQ == \E a \in {b \in Actions : b.t # SubFile /\ b.u # SubFile} : Do(a)
ShapeAny(a, i) == TRUE
\* the walks of the upgrade family begin with a read of f1 and a commit of another process to it
ShapeUpgrade(a, i) == CASE i = 1 -> a.act \in {"select", "selectsub", "selectagg"} [] i = 2 -> a.act = "env" [] OTHER -> a.act # "env"
Depth6 == TLCGet("level") <= 6
Depth5 == TLCGet("level") <= 5
=============================================================================
