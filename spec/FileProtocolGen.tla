-------------------------- MODULE FileProtocolGen --------------------------
(* Behaviour generator: FileProtocol + a history variable.  Run with        *)
(* -simulate; every behaviour that reaches AllDone is printed as one JSON   *)
(* array of steps {p, a, pt, f, cf, dir} (the pc of p and the directory     *)
(* projection AFTER the step) and replayed by the gate scheduler on the     *)
(* real handler code.                                                       *)
EXTENDS FileProtocolMC, Json

VARIABLE hist

DirAll == [f \in Files |-> DirOf(f)]

Rec(p, a) == [p |-> p, a |-> a, pt |-> pc'[p].pt, f |-> pc'[p].f, cf |-> pc'[p].cf, dir |-> DirAll', out |-> outcome'[p]]

GenInit == Init /\ hist = <<[a |-> "init", progs |-> prog, exists |-> [f \in Files |-> f \in InitExists]]>>

GenNext ==
  \E p \in Procs :
     \/ Step(p) /\ hist' = Append(hist, Rec(p, "step"))
     \/ Timeout(p) /\ hist' = Append(hist, Rec(p, "timeout"))

GenSpec == GenInit /\ [][GenNext]_<<vars, hist>>

Emit == AllDone => PrintT(<<"TRACE", ToJson(hist)>>)
=============================================================================
