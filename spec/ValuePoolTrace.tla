--------------------------- MODULE ValuePoolTrace ---------------------------
(* Lifecycle events recorded from the real code built with the poison switch *)
(* (Discard never re-issues; every Discard is logged with the identity of    *)
(* the object; a discarded object showing up in a result is logged by the    *)
(* harness as "read"): accepted iff no object is discarded twice and no      *)
(* discarded object is ever read.                                            *)
EXTENDS Integers, Sequences, TLC, Json
Trace == ndJsonDeserialize("trace.ndjson")
VARIABLES l, gone
TraceInit == l = 1 /\ gone = {}
TraceNext ==
  /\ l <= Len(Trace)
  /\ l' = l + 1
  /\ LET e == Trace[l] IN
       \/ e.ev = "reset" /\ gone' = {}
       \/ e.ev = "discard" /\ e.o \notin gone /\ gone' = gone \cup {e.o}
       \/ e.ev = "ok" /\ UNCHANGED gone           \* a program whose results showed no discarded object
TraceAccepted == TLCGet("stats").diameter - 1 = Len(Trace)
=============================================================================
