------------------------------ MODULE CursorGen ------------------------------
(* Behaviour generator for Cursor: history of (action, expected result).     *)
EXTENDS CursorMC, Json
CONSTANTS Depth,
          Mode      \* "all": every action with equal weight; "live": the life of cursors - only cursor statements and the
                    \* statements that change what a cursor could see, and no step that just fails (uniform walks spend
                    \* nine steps of ten on cursors that are not declared or not open)
VARIABLES hist, done
GenInit == Init /\ hist = <<[act |-> "init", tbl |-> tbl]>> /\ done = FALSE
LiveActs == {"declare", "open", "close", "fetch", "status", "whilein", "insert", "delete", "replace", "update", "dispose"}
\* (the last step only marks the behaviour as complete, so that every emitted behaviour is a walk of its own - see TxnGen)
GenNext == \/ /\ Len(hist) <= Depth /\ ~done
              /\ \E a \in Actions : /\ (Mode = "live" => a.act \in LiveActs)
                                    /\ Do(a)
                                    /\ (Mode = "live" => out'.k # "err")
                                    /\ hist' = Append(hist, [a |-> a, exp |-> out'])
              /\ UNCHANGED done
           \/ /\ Len(hist) = Depth + 1 /\ ~done
              /\ done' = TRUE /\ UNCHANGED <<vars, hist>>
Emit == done => PrintT(<<"TRACE", ToJson(hist)>>)
=============================================================================
