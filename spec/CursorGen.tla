------------------------------ MODULE CursorGen ------------------------------
(* Behaviour generator for Cursor: history of (action, expected result).     *)
EXTENDS CursorMC, Json
CONSTANTS Depth,
          Mode      \* "all": every action with equal weight; "live": the life of cursors - only cursor statements and the
                    \* statements that change what a cursor could see, and no step that just fails (uniform walks spend
                    \* nine steps of ten on cursors that are not declared or not open)
VARIABLE hist
GenInit == Init /\ hist = <<[act |-> "init", tbl |-> tbl]>>
LiveActs == {"declare", "open", "close", "fetch", "status", "whilein", "insert", "delete", "replace", "update", "dispose"}
GenNext == /\ Len(hist) <= Depth
           /\ \E a \in Actions : /\ (Mode = "live" => a.act \in LiveActs)
                                 /\ Do(a)
                                 /\ (Mode = "live" => out'.k # "err")
                                 /\ hist' = Append(hist, [a |-> a, exp |-> out'])
Emit == (Len(hist) = Depth + 1) => PrintT(<<"TRACE", ToJson(hist)>>)
=============================================================================
