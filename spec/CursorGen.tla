------------------------------ MODULE CursorGen ------------------------------
(* Behaviour generator for Cursor: history of (action, expected result).     *)
EXTENDS CursorMC, Json
CONSTANT Depth
VARIABLE hist
GenInit == Init /\ hist = <<[act |-> "init", tbl |-> tbl]>>
GenNext == /\ Len(hist) <= Depth
           /\ \E a \in Actions : Do(a) /\ hist' = Append(hist, [a |-> a, exp |-> out'])
Emit == (Len(hist) = Depth + 1) => PrintT(<<"TRACE", ToJson(hist)>>)
=============================================================================
