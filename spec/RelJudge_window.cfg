INIT JInit
NEXT JNext
INVARIANTS Satisfiable SameLength Functional Sensitive
CHECK_DEADLOCK FALSE
