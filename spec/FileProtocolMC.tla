-------------------------- MODULE FileProtocolMC --------------------------
(* Exhaustive model-checking configurations of FileProtocol.                *)
EXTENDS FileProtocol

R(f) == <<[op |-> "read", f |-> f]>>
UC(f) == <<[op |-> "update", f |-> f], [op |-> "commit", f |-> "-"]>>
UR(f) == <<[op |-> "update", f |-> f], [op |-> "rollback", f |-> "-"]>>
UE(f) == <<[op |-> "update", f |-> f]>>                    \* ends without COMMIT: deferred rollback
RUC(f) == <<[op |-> "read", f |-> f], [op |-> "update", f |-> f], [op |-> "commit", f |-> "-"]>>
UCUC(f) == <<[op |-> "update", f |-> f], [op |-> "commit", f |-> "-"], [op |-> "update", f |-> f], [op |-> "commit", f |-> "-"]>>
CC(f) == <<[op |-> "create", f |-> f], [op |-> "commit", f |-> "-"]>>
CR(f) == <<[op |-> "create", f |-> f], [op |-> "rollback", f |-> "-"]>>
UUC(f, g) == <<[op |-> "update", f |-> f], [op |-> "update", f |-> g], [op |-> "commit", f |-> "-"]>>

Procs2 == {"p1", "p2"}
Procs3 == {"p1", "p2", "p3"}
Files1 == {"f1"}
Files2 == {"f1", "f2"}
ProgsOneFile == {R("f1"), UC("f1"), UR("f1"), UE("f1"), RUC("f1"), UCUC("f1")}
ProgsSmall == {R("f1"), UC("f1"), UR("f1")}
ProgsTwoFiles == {UUC("f1", "f2"), UUC("f2", "f1"), R("f1"), UC("f2")}
ProgsCreate == {CC("f1"), CR("f1"), R("f1"), UC("f1")}
ProgsCreate2 == {CC("f2"), CR("f2"), R("f2"), UC("f2"), UC("f1")}
UCC(f, g) == <<[op |-> "update", f |-> f], [op |-> "create", f |-> g], [op |-> "commit", f |-> "-"]>>
ProgsCrash == {UC("f1"), UCC("f1", "f2"), R("f1"), UR("f1")}
None == {}
=============================================================================
