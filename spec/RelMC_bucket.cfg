INIT Init
NEXT Next
INVARIANTS BucketLaws
CHECK_DEADLOCK FALSE
