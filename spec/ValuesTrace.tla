----------------------------- MODULE ValuesTrace -----------------------------
(* Law-only validation (direction B) for operands OUTSIDE the catalog (int64  *)
(* bounds, random floats, padded numeric strings, random datetimes ...): the  *)
(* harness evaluates all six relational operators for (a,b) and (b,a) on the  *)
(* real csvq and logs the vectors; no classification of the operands is       *)
(* needed to check that the vector is one of the six rows the ladder can      *)
(* produce, that the swapped vector is the row of the swapped result, and     *)
(* that integer and float arithmetic agree on integral operands.              *)
EXTENDS Values, Json
Trace == ndJsonDeserialize("trace.ndjson")
VARIABLE l
Results == {"Eq", "BoolEq", "Ne", "Lt", "Gt", "Inc"}
\* <<=, <>, <, <=, >, >=>>
OpsOf(r) == CASE r = "Eq"     -> <<"T", "F", "F", "T", "F", "T">>
              [] r = "BoolEq" -> <<"T", "F", "U", "U", "U", "U">>
              [] r = "Ne"     -> <<"F", "T", "U", "U", "U", "U">>
              [] r = "Lt"     -> <<"F", "T", "T", "T", "F", "F">>
              [] r = "Gt"     -> <<"F", "T", "F", "F", "T", "T">>
              [] r = "Inc"    -> <<"U", "U", "U", "U", "U", "U">>
Swap(r) == CASE r = "Lt" -> "Gt" [] r = "Gt" -> "Lt" [] OTHER -> r
\* the table above is the one Values derives from Compare (checked once, at the first state)
TableAgrees == \A p \in Pairs : LET a == V(p[1])  b == V(p[2]) IN
                 <<Eq(a, b), Ne(a, b), Lt(a, b), Le(a, b), Gt(a, b), Ge(a, b)>> = OpsOf(Compare(a, b))
TraceInit == l = 1 /\ TableAgrees
TraceNext ==
  /\ l <= Len(Trace)
  /\ l' = l + 1
  /\ LET e == Trace[l] IN
       \/ e.kind = "cmp" /\ \E r \in Results : e.ab = OpsOf(r) /\ e.ba = OpsOf(Swap(r))
       \/ e.kind = "agree" /\ e.ri = e.rf
       \/ e.kind = "modsign" /\ e.ok
       \* integers far outside TLC's range, given as offsets from a common base B (|B| up to 2^63): two integers
       \* B + da, B + db in any integer spelling (literal, text, padded, signed, zero-padded) compare as integers ...
       \/ e.kind = "wincmp" /\ e.ab = OpsOf(CmpInt(e.da, e.db)) /\ e.ba = OpsOf(CmpInt(e.db, e.da))
       \* ... and integer arithmetic on them is exact and stays integer: (B + da) + c, (B + da) - c, (B + da) - (B + db),
       \* (B + da) % m with bm = B % m (remainder with the sign of the dividend)
       \/ e.kind = "win" /\ e.isint /\
            CASE e.op = "+"    -> e.off = e.da + e.c
              [] e.op = "-"    -> e.off = e.da - e.c
              [] e.op = "diff" -> e.val = e.da - e.db
              [] e.op = "mod"  -> e.val = TMod(e.bm + e.da, e.c)
              [] e.op = "neg"  -> e.off = -e.da
TraceAccepted == TLCGet("stats").diameter - 1 = Len(Trace)
=============================================================================
