-------------------------------- MODULE Expr --------------------------------
(***************************************************************************)
(* Nested value expressions (C06, C18): the meaning of an expression tree  *)
(* is defined compositionally - every node from the values of its          *)
(* operands - so the generator builds a tree bottom-up on a stack and      *)
(* carries the value along.  The harness renders each tree as text in      *)
(* three ways (every compound operand in parentheses; parentheses only     *)
(* where the documented precedence table requires them; extra pairs), has  *)
(* csvq evaluate each text (C06: arithmetic, comparison, Kleene logic,     *)
(* BETWEEN / IN / CASE expansions, precedence) and prints, re-parses and   *)
(* re-evaluates it (C18).                                                  *)
(*                                                                         *)
(* An arithmetic value is an integer or NULL; a condition is T, F or U.    *)
(***************************************************************************)
EXTENDS Integers, Sequences, TLC, Json

CONSTANTS Leaves,    \* integer literals
          MaxSteps   \* length of a construction

Null == [k |-> "null", i |-> 0]
IntV(i) == [k |-> "int", i |-> i]
Tern(t) == [k |-> "tern", i |-> 0, t |-> t]

Abs(x) == IF x < 0 THEN -x ELSE x
TDiv(x, y) == IF (x < 0) = (y < 0) THEN Abs(x) \div Abs(y) ELSE -(Abs(x) \div Abs(y))
TMod(x, y) == x - y * TDiv(x, y)            \* remainder with the sign of the dividend

Arith(op, x, y) ==
  IF x.k = "null" \/ y.k = "null" THEN Null
  ELSE CASE op = "+" -> IntV(x.i + y.i)
         [] op = "-" -> IntV(x.i - y.i)
         [] op = "*" -> IntV(x.i * y.i)
         [] op = "%" -> IntV(TMod(x.i, y.i))
Neg(x) == IF x.k = "null" THEN Null ELSE IntV(-x.i)

T3(b) == IF b THEN "T" ELSE "F"
Cmp(op, x, y) ==
  IF x.k = "null" \/ y.k = "null" THEN "U"
  ELSE CASE op = "="  -> T3(x.i = y.i)  [] op = "<>" -> T3(x.i # y.i)
         [] op = "<"  -> T3(x.i < y.i)  [] op = "<=" -> T3(x.i <= y.i)
         [] op = ">"  -> T3(x.i > y.i)  [] op = ">=" -> T3(x.i >= y.i)
And(a, b) == IF a = "F" \/ b = "F" THEN "F" ELSE IF a = "U" \/ b = "U" THEN "U" ELSE "T"
Or(a, b)  == IF a = "T" \/ b = "T" THEN "T" ELSE IF a = "U" \/ b = "U" THEN "U" ELSE "F"
Not(a)    == CASE a = "T" -> "F" [] a = "F" -> "T" [] OTHER -> "U"
Between(x, lo, hi) == And(Cmp(">=", x, lo), Cmp("<=", x, hi))
In2(x, a, b) == Or(Cmp("=", x, a), Cmp("=", x, b))

ArithOps == {"+", "-", "*", "%"}
CmpOps == {"=", "<>", "<", "<=", ">", ">="}
LogicOps == {"AND", "OR"}

\* an entry of the construction stack: the tree, its type ("a" arithmetic, "b" condition) and its value
A(e, v) == [e |-> e, ty |-> "a", v |-> v, t |-> "-"]
B(e, t) == [e |-> e, ty |-> "b", v |-> Null, t |-> t]

VARIABLES stack, steps
vars == <<stack, steps>>

Init == stack = <<>> /\ steps = 0

Top(k) == stack[Len(stack) - k]            \* k = 0: top
Pop(k) == SubSeq(stack, 1, Len(stack) - k)
Replace(k, x) == stack' = Append(Pop(k), x)

PushLit(i) == Len(stack) < 4 /\ stack' = Append(stack, A([op |-> "lit", i |-> i], IntV(i)))
PushNull   == Len(stack) < 4 /\ stack' = Append(stack, A([op |-> "null"], Null))
BinArith(op) ==
  /\ Len(stack) >= 2 /\ Top(0).ty = "a" /\ Top(1).ty = "a"
  /\ op = "%" => ~(Top(0).v.k = "int" /\ Top(0).v.i = 0)          \* integer division by zero is an error: not generated
  /\ Arith(op, Top(1).v, Top(0).v).k = "int" => Abs(Arith(op, Top(1).v, Top(0).v).i) < 100000
  /\ Replace(2, A([op |-> op, l |-> Top(1).e, r |-> Top(0).e], Arith(op, Top(1).v, Top(0).v)))
UnNeg  == Len(stack) >= 1 /\ Top(0).ty = "a" /\ Replace(1, A([op |-> "neg", l |-> Top(0).e], Neg(Top(0).v)))
BinCmp(op) ==
  /\ Len(stack) >= 2 /\ Top(0).ty = "a" /\ Top(1).ty = "a"
  /\ Replace(2, B([op |-> op, l |-> Top(1).e, r |-> Top(0).e], Cmp(op, Top(1).v, Top(0).v)))
BinLogic(op) ==
  /\ Len(stack) >= 2 /\ Top(0).ty = "b" /\ Top(1).ty = "b"
  /\ Replace(2, B([op |-> op, l |-> Top(1).e, r |-> Top(0).e], IF op = "AND" THEN And(Top(1).t, Top(0).t) ELSE Or(Top(1).t, Top(0).t)))
UnNot  == Len(stack) >= 1 /\ Top(0).ty = "b" /\ Replace(1, B([op |-> "NOT", l |-> Top(0).e], Not(Top(0).t)))
IsNullN(neg) == Len(stack) >= 1 /\ Top(0).ty = "a"
                /\ Replace(1, B([op |-> IF neg THEN "isnotnull" ELSE "isnull", l |-> Top(0).e],
                                 T3((Top(0).v.k = "null") # neg)))
BetweenN(neg) ==
  /\ Len(stack) >= 3 /\ Top(0).ty = "a" /\ Top(1).ty = "a" /\ Top(2).ty = "a"
  /\ LET t == Between(Top(2).v, Top(1).v, Top(0).v) IN
     Replace(3, B([op |-> IF neg THEN "notbetween" ELSE "between", l |-> Top(2).e, r |-> Top(1).e, r2 |-> Top(0).e], IF neg THEN Not(t) ELSE t))
InN(neg) ==
  /\ Len(stack) >= 3 /\ Top(0).ty = "a" /\ Top(1).ty = "a" /\ Top(2).ty = "a"
  /\ LET t == In2(Top(2).v, Top(1).v, Top(0).v) IN
     Replace(3, B([op |-> IF neg THEN "notin" ELSE "in", l |-> Top(2).e, r |-> Top(1).e, r2 |-> Top(0).e], IF neg THEN Not(t) ELSE t))
\* x op ANY (SELECT a UNION ALL SELECT b) = (x op a) OR (x op b);  x op ALL (..) = (x op a) AND (x op b)
QuantN(op, all) ==
  /\ Len(stack) >= 3 /\ Top(0).ty = "a" /\ Top(1).ty = "a" /\ Top(2).ty = "a"
  /\ LET c1 == Cmp(op, Top(2).v, Top(1).v)  c2 == Cmp(op, Top(2).v, Top(0).v) IN
     Replace(3, B([op |-> IF all THEN "all" ELSE "any", cmp |-> op, l |-> Top(2).e, r |-> Top(1).e, r2 |-> Top(0).e], IF all THEN And(c1, c2) ELSE Or(c1, c2)))
\* over a sub-query that returns no record the expansion is the empty disjunction / conjunction, whatever x is (NULL too):
\* x op ANY (SELECT 1 WHERE FALSE) = F, x IN (..) = F;  x op ALL (..) = T, x NOT IN (..) = T
QuantEmptyN(op, all) ==
  /\ Len(stack) >= 1 /\ Top(0).ty = "a"
  /\ Replace(1, B([op |-> IF all THEN "allempty" ELSE "anyempty", cmp |-> op, l |-> Top(0).e], IF all THEN "T" ELSE "F"))
InEmptyN(neg) ==
  /\ Len(stack) >= 1 /\ Top(0).ty = "a"
  /\ Replace(1, B([op |-> IF neg THEN "notinempty" ELSE "inempty", l |-> Top(0).e], IF neg THEN "T" ELSE "F"))
\* c IS [NOT] TRUE / FALSE / UNKNOWN: never UNKNOWN itself
IsTernN(w, neg) ==
  /\ Len(stack) >= 1 /\ Top(0).ty = "b"
  /\ Replace(1, B([op |-> "ister", w |-> w, neg |-> neg, l |-> Top(0).e], T3((Top(0).t = w) # neg)))
\* CASE WHEN c THEN a ELSE b END
CaseN ==
  /\ Len(stack) >= 3 /\ Top(0).ty = "a" /\ Top(1).ty = "a" /\ Top(2).ty = "b"
  /\ Replace(3, A([op |-> "case", c |-> Top(2).e, l |-> Top(1).e, r |-> Top(0).e], IF Top(2).t = "T" THEN Top(1).v ELSE Top(0).v))
\* an extra pair of parentheses changes nothing
Paren == Len(stack) >= 1 /\ Top(0).e.op # "paren" /\ Replace(1, [Top(0) EXCEPT !.e = [op |-> "paren", l |-> Top(0).e]])

Next ==
  /\ steps < MaxSteps
  /\ steps' = steps + 1
  /\ \/ \E i \in Leaves : PushLit(i)
     \/ PushNull
     \/ \E op \in ArithOps : BinArith(op)
     \/ \E op \in ArithOps : BinArith(op)       \* (weight)
     \/ UnNeg
     \/ \E op \in CmpOps : BinCmp(op)
     \/ \E op \in LogicOps : BinLogic(op)
     \/ UnNot
     \/ \E n \in BOOLEAN : IsNullN(n) \/ BetweenN(n) \/ InN(n)
     \/ CaseN
     \/ \E op \in CmpOps : \E all \in BOOLEAN : QuantN(op, all)
     \/ \E w \in {"T", "F", "U"} : \E neg \in BOOLEAN : IsTernN(w, neg)
     \/ \E op \in {"=", "<", ">="} : \E all \in BOOLEAN : QuantEmptyN(op, all)
     \/ \E n \in BOOLEAN : InEmptyN(n)
     \/ Paren

Spec == Init /\ [][Next]_vars

\* design checks over everything the generator can build (small bound)
TypeOK == \A k \in 1..Len(stack) : /\ stack[k].ty \in {"a", "b"}
                                   /\ stack[k].ty = "b" => stack[k].t \in {"T", "F", "U"}
                                   /\ stack[k].ty = "a" => stack[k].v.k \in {"int", "null"}
\* NULL is absorbing for arithmetic, De Morgan holds in Kleene logic
Laws == /\ \A op \in ArithOps : Arith(op, Null, IntV(1)) = Null /\ Arith(op, IntV(1), Null) = Null
        /\ \A a, b \in {"T", "F", "U"} : Not(And(a, b)) = Or(Not(a), Not(b)) /\ Not(Or(a, b)) = And(Not(a), Not(b))
        /\ \A a \in {"T", "F", "U"} : Not(Not(a)) = a

ValueText(x) == IF x.ty = "b" THEN x.t ELSE IF x.v.k = "null" THEN "NULL" ELSE ToString(x.v.i)
Emit == (Len(stack) = 1 /\ steps >= 3) => PrintT(<<"TRACE", ToJson([e |-> stack[1].e, ty |-> stack[1].ty, val |-> ValueText(stack[1])])>>)
=============================================================================
