CONSTANTS
  Procs = {"p1", "p2", "p3"}
  Files = {"f1", "f2"}
INIT ObsInit
NEXT ObsNext
POSTCONDITION ObsAccepted
CHECK_DEADLOCK FALSE
