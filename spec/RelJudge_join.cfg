INIT LInit
NEXT JNext
INVARIANTS JoinLaws
CHECK_DEADLOCK FALSE
