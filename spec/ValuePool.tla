----------------------------- MODULE ValuePool -----------------------------
(***************************************************************************)
(* C14 (a) - lifecycle of pooled value objects (lib/value/pool.go).        *)
(* Objects are issued by New (from the pool when it holds one), written    *)
(* once, possibly published to a holder (a literal of the syntax tree, a   *)
(* table cell, a variable, a cursor row), read, and discarded (returned to *)
(* the pool).  The code's discipline is "only unpublished temporaries are  *)
(* discarded, and only once".  Under it no holder ever observes a change   *)
(* (NoAlias); one Discard of a published object, or one double Discard,    *)
(* is enough to break it - which is why the trace property checked on the  *)
(* real code is: no Discard of an object that is already discarded, and no *)
(* read of a discarded object.                                             *)
(***************************************************************************)
EXTENDS Integers, FiniteSets, Sequences, TLC

CONSTANTS Objs, Holders, Vals,
          Disciplined        \* TRUE: Discard only what is live, unpublished (the code as intended)

VARIABLES val,       \* [Objs -> Vals \cup {0}]   current contents
          live,      \* SUBSET Objs               issued and not discarded
          pool,      \* Seq(Objs)                 discarded objects waiting to be re-issued (may hold duplicates!)
          holds,     \* [Holders -> Objs \cup {"none"}]
          saw        \* [Holders -> Vals \cup {0}]  the value the holder was given

vars == <<val, live, pool, holds, saw>>

Init == /\ val = [o \in Objs |-> 0] /\ live = {} /\ pool = <<>>
        /\ holds = [h \in Holders |-> "none"] /\ saw = [h \in Holders |-> 0]

\* NewInteger(v) etc.: take from the pool if possible, else a fresh object
New(o, v) ==
  /\ IF pool # <<>> THEN o = Head(pool) /\ pool' = Tail(pool)
                    ELSE o \notin live /\ (\A i \in 1..Len(pool) : pool[i] # o) /\ UNCHANGED pool
  /\ val' = [val EXCEPT ![o] = v]
  /\ live' = live \cup {o}
  /\ UNCHANGED <<holds, saw>>

Publish(h, o) ==
  /\ o \in live /\ holds[h] = "none"
  /\ holds' = [holds EXCEPT ![h] = o] /\ saw' = [saw EXCEPT ![h] = val[o]]
  /\ UNCHANGED <<val, live, pool>>

Release(h) == holds[h] # "none" /\ holds' = [holds EXCEPT ![h] = "none"] /\ UNCHANGED <<val, live, pool, saw>>

Published(o) == \E h \in Holders : holds[h] = o

Discard(o) ==
  /\ IF Disciplined THEN o \in live /\ ~Published(o) ELSE TRUE
  /\ Len(pool) < 3
  /\ pool' = Append(pool, o)
  /\ live' = live \ {o}
  /\ UNCHANGED <<val, holds, saw>>

Next == \/ \E o \in Objs, v \in Vals : New(o, v)
        \/ \E h \in Holders, o \in Objs : Publish(h, o)
        \/ \E h \in Holders : Release(h)
        \/ \E o \in Objs : Discard(o)
Spec == Init /\ [][Next]_vars

\* what a holder reads is what it was given
NoAlias == \A h \in Holders : holds[h] # "none" => val[holds[h]] = saw[h]
\* an object is in the pool at most once and never while live
PoolSane == /\ \A i, j \in 1..Len(pool) : i # j => pool[i] # pool[j]
            /\ \A i \in 1..Len(pool) : pool[i] \notin live
=============================================================================
