CONSTANTS
  Leaves = {0, 1, 2, 3}
  MaxSteps = 5
INIT Init
NEXT Next
INVARIANTS TypeOK Laws
CHECK_DEADLOCK FALSE
