CONSTANTS
  Files <- F1
  NewFile = "f3"
  SubFile = "g1"
  TempT = "tt"
  Keys <- K1
  Vals <- V5
  MaxRows = 2
  Script = FALSE
  WithEnv = FALSE
INIT Init
NEXT NextQ
VIEW ViewNoOut
CONSTRAINT Depth6
INVARIANTS DirtyLoaded EncHeld
PROPERTIES FailStutters UntouchedUnwritten HeldStable CommitAllOrNothing
CHECK_DEADLOCK FALSE
