------------------------- MODULE FileProtocolTrace -------------------------
(* Trace validation (strict layer): a recorded execution of the real        *)
(* handler code under the gate scheduler must be a behaviour of             *)
(* FileProtocol.  Every line is one event: process p was released for one   *)
(* step and arrived at point pt; dir is the directory observed after the    *)
(* step.  Lines {a:"init"} start a new trace (TraceReset), so many traces   *)
(* share one TLC run.  All invariants of FileProtocol are evaluated on the  *)
(* states of the trace.                                                     *)
EXTENDS FileProtocolMC, Json

Trace == ndJsonDeserialize("trace.ndjson")

VARIABLE l

DirAll == [f \in Files |-> DirOf(f)]

TraceInit ==
  /\ l = 1
  /\ InitWith([p \in Procs |-> <<>>])

Reset(e) ==
  /\ prog' = e.progs
  /\ ip' = [p \in Procs |-> 1]
  /\ pc' = [p \in Procs |-> CHOOSE n \in StartOfP(e.progs[p], 1, {}, {}) : TRUE]
  /\ retries' = [p \in Procs |-> 0]
  /\ outcome' = [p \in Procs |-> "run"]
  /\ data' = [f \in Files |-> [exists |-> e.exists[f], ver |-> 0, empty |-> FALSE]]
  /\ lockf' = [f \in Files |-> NoProc]
  /\ rlockf' = [f \in Files |-> {}]
  /\ tempf' = [f \in Files |-> NoProc]
  /\ flockEx' = [f \in Files |-> NoProc]
  /\ flockSh' = [f \in Files |-> {}]
  /\ held' = [p \in Procs |-> {}]
  /\ made' = [p \in Procs |-> {}]
  /\ loaded' = [p \in Procs |-> [f \in Files |-> -1]]
  /\ commits' = [f \in Files |-> 0]
  /\ inW' = [p \in Procs |-> {}]
  /\ durable' = {f \in Files : e.exists[f]}

\* the contents of a table that no committed transaction knows yet (created, uncommitted) are not compared
DirMatch(d) ==
  \A f \in Files : /\ d[f].lock = DirOf(f)'.lock /\ d[f].nrlock = DirOf(f)'.nrlock
                    /\ d[f].temp = DirOf(f)'.temp /\ d[f].exists = DirOf(f)'.exists
                    /\ (f \in durable' => d[f].ver = DirOf(f)'.ver)

Matches(e) ==
  /\ pc'[e.p].pt = e.pt
  /\ pc'[e.p].f = e.f
  /\ (e.cf = "?" \/ pc'[e.p].cf = e.cf)          \* binary runs do not log the kind of control file
  /\ ("out" \in DOMAIN e => outcome'[e.p] = e.out)
  /\ ("dir" \in DOMAIN e => DirMatch(e.dir))     \* binary runs log the directory only at the end

TraceNext ==
  /\ l <= Len(Trace)
  /\ l' = l + 1
  /\ LET e == Trace[l] IN
       \/ e.a = "init" /\ Reset(e)
       \/ e.a = "step" /\ Step(e.p) /\ Matches(e)
       \/ e.a = "timeout" /\ Timeout(e.p) /\ Matches(e)
       \/ e.a = "crash" /\ Crash(e.p) /\ DirMatch(e.dir)
       \/ e.a = "end" /\ UNCHANGED vars /\ DirMatch(e.dir)

TraceSpec == TraceInit /\ [][TraceNext]_<<vars, l>>

TraceAccepted == TLCGet("stats").diameter - 1 = Len(Trace)
=============================================================================
