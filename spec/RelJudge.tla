------------------------------ MODULE RelJudge ------------------------------
(***************************************************************************)
(* Are the acceptance predicates of Relational.tla the right size?  They   *)
(* judge results returned by the real csvq (RelTrace), so a predicate that *)
(* accepts too much lets defects through and one that accepts nothing      *)
(* raises false alarms.  Over all small inputs TLC checks, for the judge of *)
(* ORDER BY / OFFSET / LIMIT / WITH TIES (WindowOK) and of buckets          *)
(* (BucketsOK, FirstOfBuckets):                                            *)
(*   satisfiable  - some result is accepted (the one a reference sort /    *)
(*                  first-of-bucket scan produces);                        *)
(*   sensitive    - every accepted result stops being accepted when one    *)
(*                  row is dropped, a foreign row is added, or two rows    *)
(*                  that do not tie are exchanged;                         *)
(*   functional   - results accepted for the same input have the same      *)
(*                  length, and without ties in the input exactly one      *)
(*                  result is accepted.                                    *)
(***************************************************************************)
EXTENDS RelMC

IdCell(k) == [NullCell EXCEPT !.n = FALSE, !.t = "r" \o ToString(k), !.isS = TRUE]
KeyRep == {Cell(x) : x \in {"NULL", "'1'", "' 1 '", "'2'", "'1.5'"}}

\* tables of n rows <<id, key>>
TablesN(n) == {[i \in 1..n |-> <<IdCell(i), f[i]>>] : f \in [1..n -> KeyRep]}
Tables == UNION {TablesN(n) : n \in 0..3}

\* every sequence of distinct rows of t (candidates for a result)
RECURSIVE SubPerms(_)
SubPerms(S) == {<<>>} \cup UNION {{<<x>> \o p : p \in SubPerms(S \ {x})} : x \in S}
Cands(t) == SubPerms(Range(t))

Limits == {[k |-> "none", n |-> 0], [k |-> "n", n |-> 0], [k |-> "n", n |-> 1], [k |-> "n", n |-> 2], [k |-> "pct", n |-> 50]}
KeysJ == {<<[i |-> 2, desc |-> d, nf |-> f]>> : d, f \in BOOLEAN}

VARIABLES t, keys, m, lim, ties, bk
jvars == <<t, keys, m, lim, ties, bk, st>>
JInit == t \in Tables /\ keys \in KeysJ /\ m \in 0..2 /\ lim \in Limits /\ ties \in BOOLEAN /\ (ties => lim.k = "n") /\ bk = <<>> /\ st = 0
JNext == UNCHANGED jvars

OK(res) == WindowOK(t, res, keys, m, lim, ties, 1)
Accepted == {res \in Cands(t) : OK(res)}

\* a reference result: insertion sort by Precedes (stable), then the cut, then the ties
RECURSIVE Insert(_, _, _), SortBy(_, _)
Insert(r, s, ks) == IF s = <<>> THEN <<r>>
                    ELSE IF Precedes(r, Head(s), ks) THEN <<r>> \o s ELSE <<Head(s)>> \o Insert(r, Tail(s), ks)
SortBy(s, ks) == IF s = <<>> THEN <<>> ELSE Insert(s[Len(s)], SortBy(SubSeq(s, 1, Len(s) - 1), ks), ks)
Reference ==
  LET sorted == SortBy(t, keys)
      sk == Skip(Len(t), m)
      base == KeptCount(Len(t), m, lim)
      k == IF ~ties \/ base = 0 THEN base
           ELSE base + Cardinality({j \in (sk + base + 1)..Len(sorted) : Tie(sorted[j], sorted[sk + base], keys)})
  IN SubSeq(sorted, sk + 1, sk + k)

Satisfiable == OK(Reference)
SameLength == \A a, b \in Accepted : Len(a) = Len(b)
NoTiesInInput == \A i, j \in 1..Len(t) : i # j => ~Tie(t[i], t[j], keys)
Functional == NoTiesInInput => Cardinality(Accepted) = 1
DropLast(res) == SubSeq(res, 1, Len(res) - 1)
Swap(res, i) == [j \in 1..Len(res) |-> IF j = i THEN res[i + 1] ELSE IF j = i + 1 THEN res[i] ELSE res[j]]
Sensitive ==
  \A res \in Accepted :
    /\ res # <<>> => ~OK(DropLast(res))
    /\ \A x \in Range(t) \ Range(res) : ~OK(Append(res, x)) \/ (ties /\ FALSE)
    /\ \A i \in 1..(Len(res) - 1) : ~Tie(res[i], res[i + 1], keys) => ~OK(Swap(res, i))

-----------------------------------------------------------------------------
\* buckets: keys of up to 3 one-column rows over the bucket repertoire
BRows == {<<c>> : c \in RepCells}
BTables == UNION {[1..n -> BRows] : n \in 0..3}
BInit == bk \in BTables /\ t = <<>> /\ keys = <<>> /\ m = 0 /\ lim = [k |-> "none", n |-> 0] /\ ties = FALSE /\ st = 0
BNext == UNCHANGED jvars
BCands == SubPerms({bk[i] : i \in 1..Len(bk)})
BSatisfiable == Decided(bk) => BucketsOK(bk, FirstOfBuckets(bk))
BSensitive == Decided(bk) =>
  \A out \in {o \in BCands : BucketsOK(bk, o)} :
     /\ Len(out) = Len(FirstOfBuckets(bk))                                  \* one representative per bucket
     /\ out # <<>> => ~BucketsOK(bk, DropLast(out))                         \* losing a bucket is noticed
     /\ \A x \in {bk[i] : i \in 1..Len(bk)} \ Range(out) : ~BucketsOK(bk, Append(out, x))   \* a split bucket is noticed
-----------------------------------------------------------------------------
\* joins: the outer joins are the inner join plus exactly the unmatched rows, padded; RIGHT is LEFT mirrored
JCells == {Cell(x) : x \in {"NULL", "'1'", "' 1 '", "'2'"}}
JRows == {<<c>> : c \in JCells}
JTables == UNION {[1..n -> JRows] : n \in 0..2}
OnEq == [k |-> "cmp", op |-> "=", l |-> [k |-> "col", i |-> 1], r |-> [k |-> "col", i |-> 2]]
LInit == bk \in JTables /\ t \in JTables /\ keys = <<>> /\ m = 0 /\ lim = [k |-> "none", n |-> 0] /\ ties = FALSE /\ st = 0
Unmatched(A, B) == Cardinality({i \in 1..Len(A) : \A j \in 1..Len(B) : Eq(A[i][1], B[j][1]) # "T"})
Mirror(rows) == [i \in 1..Len(rows) |-> <<rows[i][2], rows[i][1]>>]
JoinLaws ==
  LET L == bk  R == t
      inner == Inner(L, R, OnEq)  left == LeftJ(L, R, OnEq, 1)  right == RightJ(L, R, OnEq, 1)  full == FullJ(L, R, OnEq, 1, 1) IN
  /\ Len(inner) = Cardinality({p \in (1..Len(L)) \X (1..Len(R)) : Eq(L[p[1]][1], R[p[2]][1]) = "T"})
  /\ Len(left) = Len(inner) + Unmatched(L, R)
  /\ Len(right) = Len(inner) + Unmatched(R, L)
  /\ Len(full) = Len(inner) + Unmatched(L, R) + Unmatched(R, L)
  /\ \A x \in Range(TextRows(inner)) : CountIn(TextRows(left), x) >= CountIn(TextRows(inner), x)
  /\ SameBag(TextRows(right), TextRows(Mirror(LeftJ(R, L, OnEq, 1))))
  /\ \A i \in 1..Len(left) : left[i][2].n => \A j \in 1..Len(R) : Eq(left[i][1], R[j][1]) # "T"     \* padded only when unmatched
==============================================================================
