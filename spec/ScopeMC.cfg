CONSTANT Fuel = 12
INIT Init
NEXT Next
INVARIANT BalancedInv
CHECK_DEADLOCK FALSE
