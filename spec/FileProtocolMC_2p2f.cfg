CONSTANTS
  Procs <- Procs2
  Files <- Files2
  Programs <- ProgsTwoFiles
  InitExists <- Files2
  RemoveBeforeRename = FALSE
  RemoveOnFailedCreate = FALSE
  AllowCrash = FALSE
  MaxRetries = 1
SPECIFICATION Spec
INVARIANTS WriterExcludesAll HeldImpliesExclusive ReaderExcludesWriterStart FlockNeverContended NoLostUpdate CleanExit OutcomeDocumented Durable QuiescentClean
PROPERTIES TimeoutHarmless Termination
CHECK_DEADLOCK FALSE
