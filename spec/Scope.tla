------------------------------- MODULE Scope -------------------------------
(***************************************************************************)
(* C15 - blocks and function calls give declarations a local lifetime and  *)
(* safe shadowing; BREAK / CONTINUE / RETURN / EXIT transfer control as    *)
(* documented.  An executable semantics of csvq's procedural subset:       *)
(*                                                                         *)
(*   VAR @x := e | @x := e | DISPOSE @x | PRINT e                          *)
(*   IF c THEN .. [ELSEIF c THEN ..] [ELSE ..] END IF                      *)
(*   WHILE c DO .. END WHILE | BREAK | CONTINUE | EXIT                     *)
(*   DECLARE f FUNCTION (@p) AS BEGIN .. END | RETURN e | f(e) in exprs    *)
(*   DECLARE c CURSOR FOR SELECT v | OPEN c; FETCH c INTO @x; CLOSE c |    *)
(*   DISPOSE CURSOR c | DECLARE t VIEW (n) AS SELECT v | (SELECT n FROM t) *)
(*   in exprs | DISPOSE TABLE t                                            *)
(*                                                                         *)
(* State st = [blocks, out]: blocks is the scope chain, innermost first;   *)
(* each block maps variable names to values and function names to          *)
(* definitions.  As in lib/query/reference_scope.go: declarations go to    *)
(* the innermost block; lookups and assignments walk outwards; IF/ELSEIF/  *)
(* ELSE branches and WHILE loops run in a child block (the loop's block is *)
(* cleared at every iteration); a function invocation runs in a new block  *)
(* on top of the CALLER's chain with its parameter declared there.         *)
(***************************************************************************)
EXTENDS Integers, Sequences, FiniteSets, TLC

Null == -1000                        \* the NULL value (values are small integers)
NoVars == [x \in {} |-> 0]
\* a block: variables, functions, cursors (name -> the value its query yields) and temporary tables (name -> value)
Block(vs, fs) == [vars |-> vs, funs |-> fs, curs |-> NoVars, tabs |-> NoVars]
EmptyBlock == Block(NoVars, NoVars)

Txt(v) == IF v = Null THEN "NULL" ELSE ToString(v)

\* index of the innermost block declaring variable x (0 = none)
RECURSIVE FindVar(_, _, _)
FindVar(blocks, x, i) == IF i > Len(blocks) THEN 0 ELSE IF x \in DOMAIN blocks[i].vars THEN i ELSE FindVar(blocks, x, i + 1)
RECURSIVE FindCur(_, _, _), FindTab(_, _, _)
FindCur(blocks, c, i) == IF i > Len(blocks) THEN 0 ELSE IF c \in DOMAIN blocks[i].curs THEN i ELSE FindCur(blocks, c, i + 1)
FindTab(blocks, t, i) == IF i > Len(blocks) THEN 0 ELSE IF t \in DOMAIN blocks[i].tabs THEN i ELSE FindTab(blocks, t, i + 1)
RECURSIVE FindFun(_, _, _)
FindFun(blocks, f, i) == IF i > Len(blocks) THEN 0 ELSE IF f \in DOMAIN blocks[i].funs THEN i ELSE FindFun(blocks, f, i + 1)

Remove(m, x) == [y \in DOMAIN m \ {x} |-> m[y]]

\* results
Ok(st) == [st |-> st, flow |-> "next", v |-> Null, err |-> ""]
Fail(st, e) == [st |-> st, flow |-> "error", v |-> Null, err |-> e]
Flow(st, f, v) == [st |-> st, flow |-> f, v |-> v, err |-> ""]

-----------------------------------------------------------------------------
(* Expressions: [k |-> "lit", v] | "var", x | "add", l, r | "lt", l, r | "call", f, a        *)
(* Eval returns a result whose v is the value (for "lt": 1 true, 0 false, Null unknown)     *)

RECURSIVE Eval(_, _, _), Exec(_, _, _), ExecList(_, _, _), Loop(_, _, _, _), Call(_, _, _, _), IfChain(_, _, _, _), CurLoop(_, _, _, _, _)

Eval(e, st, fuel) ==
  CASE e.k = "lit" -> Flow(st, "next", e.v)
    [] e.k = "var" -> LET i == FindVar(st.blocks, e.x, 1) IN
                      IF i = 0 THEN Fail(st, "UndeclaredVariable") ELSE Flow(st, "next", st.blocks[i].vars[e.x])
    [] e.k \in {"add", "lt"} ->
         LET a == Eval(e.l, st, fuel) IN
         IF a.flow # "next" THEN a
         ELSE LET b == Eval(e.r, a.st, fuel) IN
              IF b.flow # "next" THEN b
              ELSE IF a.v = Null \/ b.v = Null THEN Flow(b.st, "next", Null)
              ELSE IF e.k = "add" THEN Flow(b.st, "next", a.v + b.v)
              ELSE Flow(b.st, "next", IF a.v < b.v THEN 1 ELSE 0)
    [] e.k = "tab" ->      \* (SELECT n FROM t): the innermost temporary table of that name
         LET i == FindTab(st.blocks, e.t, 1) IN
         IF i = 0 THEN Fail(st, "FileNotExist") ELSE Flow(st, "next", st.blocks[i].tabs[e.t])
    [] e.k = "aggq" ->     \* (SELECT f(n) FROM t): the innermost function of that name decides - a user-defined aggregate
                           \* function receives the list of the table's values, a scalar one is called for each record
         LET i == FindTab(st.blocks, e.t, 1) IN
         IF i = 0 THEN Fail(st, "FileNotExist") ELSE Call(e.f, st.blocks[i].tabs[e.t], st, fuel)
    [] e.k = "call" ->
         LET a == Eval(e.a, st, fuel) IN
         IF a.flow # "next" THEN a
         ELSE LET i == FindFun(a.st.blocks, e.f, 1) IN
              IF i # 0 /\ a.st.blocks[i].funs[e.f].agg THEN Flow(a.st, "next", 0)    \* an aggregate function used outside a query receives the empty list
              ELSE Call(e.f, a.v, a.st, fuel)

\* a user-defined function: new block on top of the caller's chain holding the parameter; the body runs there;
\* RETURN gives the value (NULL without RETURN); the block is dropped afterwards
Call(f, arg, st, fuel) ==
  LET i == FindFun(st.blocks, f, 1) IN
  IF i = 0 THEN Fail(st, "FunctionNotExist")
  ELSE IF fuel = 0 THEN Flow(st, "fuel", Null)
  ELSE IF st.blocks[i].funs[f].agg THEN Flow(st, "next", IF arg = Null THEN Null ELSE arg + 100)   \* DECLARE f AGGREGATE: the fixed body sums v + 100 over the list (one value here)
  ELSE LET def == st.blocks[i].funs[f]
           inner0 == [st EXCEPT !.blocks = <<Block([x \in {def.p} |-> arg], NoVars)>> \o st.blocks]
           \* an optional second parameter (def.q # ""): its DEFAULT expression is evaluated at EVERY call that omits it, in
           \* the new block, after the first parameter is bound (it may refer to it and to whatever the caller's chain holds)
           dv == IF def.q = "" THEN Ok(inner0) ELSE Eval(def.d, inner0, fuel - 1)
           inner == IF def.q = "" \/ dv.flow # "next" THEN inner0
                    ELSE [dv.st EXCEPT !.blocks[1].vars = (def.q :> dv.v) @@ @]
           r == IF dv.flow # "next" THEN dv ELSE ExecList(def.body, inner, fuel - 1)
           back == [r.st EXCEPT !.blocks = Tail(r.st.blocks)] IN
       CASE r.flow \in {"error", "exit", "fuel"} -> [r EXCEPT !.st = back]
         [] r.flow = "return" -> Flow(back, "next", r.v)
         [] OTHER -> Flow(back, "next", Null)            \* fell off the end (BREAK/CONTINUE outside a loop end the body)

\* run ss in a child block
InChild(ss, st, fuel) ==
  LET r == ExecList(ss, [st EXCEPT !.blocks = <<EmptyBlock>> \o st.blocks], fuel) IN
  [r EXCEPT !.st = [r.st EXCEPT !.blocks = Tail(r.st.blocks)]]

Truth(c, st, fuel) == Eval(c, st, fuel)      \* v = 1: TRUE, otherwise not TRUE

\* IF c1 THEN b1 ELSEIF c2 THEN b2 ... ELSE be : branches = <<[c, body]...>>, els = body or <<>>
IfChain(branches, els, st, fuel) ==
  IF branches = <<>> THEN (IF els = <<>> THEN Ok(st) ELSE InChild(els, st, fuel))
  ELSE LET t == Truth(Head(branches).c, st, fuel) IN
       IF t.flow # "next" THEN t
       ELSE IF t.v = 1 THEN InChild(Head(branches).body, t.st, fuel)
       ELSE IfChain(Tail(branches), els, t.st, fuel)

\* WHILE c DO body: st.blocks[1] is the loop's own block, cleared before each evaluation of c
Loop(c, body, st, fuel) ==
  IF fuel = 0 THEN Flow(st, "fuel", Null)
  ELSE LET cleared == [st EXCEPT !.blocks = <<EmptyBlock>> \o Tail(st.blocks)]
           t == Truth(c, cleared, fuel) IN
       IF t.flow # "next" THEN t
       ELSE IF t.v # 1 THEN Ok(t.st)
       ELSE LET r == ExecList(body, t.st, fuel) IN
            CASE r.flow \in {"next", "continue"} -> Loop(c, body, r.st, fuel - 1)
              [] r.flow = "break" -> Ok(r.st)
              [] OTHER -> r                       \* error, exit, return, fuel

\* WHILE [VAR] @x IN c: one child block for the loop, cleared before every fetch; with VAR the variable is declared
\* in it, otherwise the innermost @x of the chain receives the row; ci = index of the cursor's block in st.blocks
CurLoop(s, k, ci, st, fuel) ==
  LET vs == st.blocks[ci].curs[s.c].vs IN
  IF fuel = 0 THEN Flow(st, "fuel", Null)
  ELSE IF k > Len(vs) THEN Ok(st)
  ELSE LET cleared == [st EXCEPT !.blocks[1] = EmptyBlock]
           j == FindVar(cleared.blocks, s.x, 1)
           bound == IF s.decl THEN [cleared EXCEPT !.blocks[1].vars = (s.x :> vs[k]) @@ @]
                    ELSE IF j = 0 THEN cleared ELSE [cleared EXCEPT !.blocks[j].vars[s.x] = vs[k]] IN
       IF ~s.decl /\ j = 0 THEN Fail(cleared, "UndeclaredVariable")
       ELSE LET r == ExecList(s.body, bound, fuel) IN
            CASE r.flow \in {"next", "continue"} -> CurLoop(s, k + 1, ci, r.st, fuel - 1)
              [] r.flow = "break" -> Ok(r.st)
              [] OTHER -> r

Exec(s, st, fuel) ==
  CASE s.k = "var" ->      \* VAR @x := e
         LET r == Eval(s.e, st, fuel) IN
         IF r.flow # "next" THEN r
         ELSE IF s.x \in DOMAIN r.st.blocks[1].vars THEN Fail(r.st, "VariableRedeclared")
         ELSE Ok([r.st EXCEPT !.blocks[1].vars = (s.x :> r.v) @@ @])
    [] s.k = "set" ->      \* @x := e
         LET r == Eval(s.e, st, fuel) IN
         IF r.flow # "next" THEN r
         ELSE LET i == FindVar(r.st.blocks, s.x, 1) IN
              IF i = 0 THEN Fail(r.st, "UndeclaredVariable")
              ELSE Ok([r.st EXCEPT !.blocks[i].vars[s.x] = r.v])
    [] s.k = "dispose" ->
         LET i == FindVar(st.blocks, s.x, 1) IN
         IF i = 0 THEN Fail(st, "UndeclaredVariable")
         ELSE Ok([st EXCEPT !.blocks[i].vars = Remove(@, s.x)])
    [] s.k = "print" ->
         LET r == Eval(s.e, st, fuel) IN
         IF r.flow # "next" THEN r ELSE Ok([r.st EXCEPT !.out = Append(@, Txt(r.v))])
    [] s.k = "if" -> IfChain(s.branches, s.els, st, fuel)
    [] s.k = "while" ->
         LET r == Loop(s.c, s.body, [st EXCEPT !.blocks = <<EmptyBlock>> \o st.blocks], fuel) IN
         [r EXCEPT !.st = [r.st EXCEPT !.blocks = Tail(r.st.blocks)]]
    [] s.k = "break" -> Flow(st, "break", Null)
    [] s.k = "continue" -> Flow(st, "continue", Null)
    [] s.k = "exit" -> Flow(st, "exit", Null)
    [] s.k = "return" ->
         LET r == Eval(s.e, st, fuel) IN IF r.flow # "next" THEN r ELSE Flow(r.st, "return", r.v)
    [] s.k = "curdecl" ->  \* DECLARE c CURSOR FOR SELECT v : in the innermost block; the same block cannot hold two of a name
         IF s.c \in DOMAIN st.blocks[1].curs THEN Fail(st, "CursorRedeclared")
         ELSE Ok([st EXCEPT !.blocks[1].curs = (s.c :> [vs |-> s.vs, open |-> FALSE]) @@ @])
    [] s.k = "curuse" ->   \* OPEN c; FETCH c INTO @x; CLOSE c : the innermost cursor of that name gives its value to @x
         LET i == FindCur(st.blocks, s.c, 1)  j == FindVar(st.blocks, s.x, 1) IN
         IF i = 0 THEN Fail(st, "UndeclaredCursor")
         ELSE IF st.blocks[i].curs[s.c].open THEN Fail(st, "CursorOpen")
         ELSE IF j = 0 THEN Fail(st, "UndeclaredVariable")
         ELSE IF st.blocks[i].curs[s.c].vs = <<>> THEN Ok(st)
         ELSE Ok([st EXCEPT !.blocks[j].vars[s.x] = st.blocks[i].curs[s.c].vs[1]])
    \* the cursor statements one by one: the innermost cursor of that name is meant, whatever its state - an outer cursor
    \* of the same name that is open does not answer for an inner one that is closed
    [] s.k = "curopen" ->  \* OPEN c
         LET i == FindCur(st.blocks, s.c, 1) IN
         IF i = 0 THEN Fail(st, "UndeclaredCursor")
         ELSE IF st.blocks[i].curs[s.c].open THEN Fail(st, "CursorOpen")
         ELSE Ok([st EXCEPT !.blocks[i].curs[s.c].open = TRUE])
    [] s.k = "curclose" -> \* CLOSE c
         LET i == FindCur(st.blocks, s.c, 1) IN
         IF i = 0 THEN Fail(st, "UndeclaredCursor") ELSE Ok([st EXCEPT !.blocks[i].curs[s.c].open = FALSE])
    [] s.k = "curfirst" -> \* FETCH FIRST c INTO @x
         LET i == FindCur(st.blocks, s.c, 1)  j == FindVar(st.blocks, s.x, 1) IN
         IF i = 0 THEN Fail(st, "UndeclaredCursor")
         ELSE IF ~st.blocks[i].curs[s.c].open THEN Fail(st, "CursorClosed")
         ELSE IF j = 0 THEN Fail(st, "UndeclaredVariable")
         ELSE Ok([st EXCEPT !.blocks[j].vars[s.x] = st.blocks[i].curs[s.c].vs[1]])
    [] s.k = "curisopen" -> \* PRINT CURSOR c IS OPEN
         LET i == FindCur(st.blocks, s.c, 1) IN
         IF i = 0 THEN Fail(st, "UndeclaredCursor")
         ELSE Ok([st EXCEPT !.out = Append(@, IF st.blocks[i].curs[s.c].open THEN "TRUE" ELSE "FALSE")])
    [] s.k = "whilein" ->  \* OPEN c; WHILE [VAR] @x IN c DO body END WHILE; CLOSE c
         LET i == FindCur(st.blocks, s.c, 1) IN
         IF i = 0 THEN Fail(st, "UndeclaredCursor")
         ELSE IF st.blocks[i].curs[s.c].open THEN Fail(st, "CursorOpen")
         ELSE LET r == CurLoop(s, 1, i + 1, [st EXCEPT !.blocks = <<EmptyBlock>> \o st.blocks], fuel)
                  back == [r.st EXCEPT !.blocks = Tail(r.st.blocks)] IN
              \* RETURN / EXIT leave the loop with the cursor still open (CLOSE is not reached)
              IF r.flow \in {"return", "exit"} THEN [r EXCEPT !.st = [back EXCEPT !.blocks[i].curs[s.c].open = TRUE]]
              ELSE [r EXCEPT !.st = back]
    [] s.k = "curdispose" ->
         LET i == FindCur(st.blocks, s.c, 1) IN
         IF i = 0 THEN Fail(st, "UndeclaredCursor") ELSE Ok([st EXCEPT !.blocks[i].curs = Remove(@, s.c)])
    [] s.k = "tabdecl" ->  \* DECLARE t VIEW (n) AS SELECT v
         \* st.ns (deviation, see Run): the name may not be in use in ANY enclosing block - no shadowing of temporary tables
         IF (IF st.ns THEN FindTab(st.blocks, s.t, 1) # 0 ELSE s.t \in DOMAIN st.blocks[1].tabs) THEN Fail(st, "TemporaryTableRedeclared")
         ELSE Ok([st EXCEPT !.blocks[1].tabs = (s.t :> s.v) @@ @])
    [] s.k = "tabdispose" ->
         LET i == FindTab(st.blocks, s.t, 1) IN
         IF i = 0 THEN Fail(st, "UndeclaredTemporaryTable") ELSE Ok([st EXCEPT !.blocks[i].tabs = Remove(@, s.t)])
    [] s.k = "func" ->     \* DECLARE f FUNCTION (@p) AS BEGIN body END
         IF s.f \in DOMAIN st.blocks[1].funs THEN Fail(st, "FunctionRedeclared")     \* same block only: inner blocks may shadow
         ELSE Ok([st EXCEPT !.blocks[1].funs = (s.f :> [p |-> s.p, body |-> s.body, q |-> s.q, d |-> s.d, agg |-> s.agg]) @@ @])     \* functions and aggregate functions share the name space

ExecList(ss, st, fuel) ==
  IF ss = <<>> THEN Ok(st)
  ELSE LET r == Exec(Head(ss), st, fuel) IN
       IF r.flow # "next" THEN r ELSE ExecList(Tail(ss), r.st, fuel)

\* a whole procedure: what it prints and how it ends
\* ns = FALSE: the property as stated (a temporary table declared in a block shadows an outer one of the same name);
\* ns = TRUE: what csvq does instead - DECLARE .. VIEW refuses a name that is in use in any enclosing block
RunNS(prog, fuel, ns) ==
  LET r == ExecList(prog, [blocks |-> <<EmptyBlock>>, out |-> <<>>, ns |-> ns], fuel) IN
  [out |-> r.st.out,
   end |-> CASE r.flow = "error" -> r.err [] r.flow = "fuel" -> "FUEL" [] OTHER -> "ok",
   depth |-> Len(r.st.blocks)]
Run(prog, fuel) == RunNS(prog, fuel, FALSE)

-----------------------------------------------------------------------------
(* Properties of the semantics, checked on every generated program            *)
\* every block opened is closed again: the chain is back to the top-level block at the end
Balanced(prog, fuel) == Run(prog, fuel).depth = 1
=============================================================================
