CONSTANTS
  Files <- F1
  NewFile = "f3"
  TempT = "tt"
  Keys <- K1
  Vals <- V5
  MaxRows = 1
  Script = FALSE
  WithEnv = TRUE
INIT Init
NEXT Next
VIEW ViewNoOut
CONSTRAINT Depth5
INVARIANTS DirtyLoaded EncHeld
PROPERTIES FailStutters UntouchedUnwritten HeldStable CommitAllOrNothing
CHECK_DEADLOCK FALSE
