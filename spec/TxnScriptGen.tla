---------------------------- MODULE TxnScriptGen ----------------------------
(* Behaviour generator for Txn in script mode (C01): the behaviour is a whole *)
(* procedure run by the real binary; a failing statement ends the run.  The   *)
(* last element tells how the run ends (normal end = auto-commit, or EXIT)    *)
(* and what every file must then contain.                                     *)
EXTENDS TxnMC, Json
CONSTANTS Depth, GenActs,
          Weight,    \* copies of COMMIT / ROLLBACK (so that procedures cross several transaction boundaries)
          ErrFrom    \* failing statements are generated from this step on (they end the run)
VARIABLES hist, fin
GenInit == Init /\ hist = <<[act |-> "init", disk |-> disk]>> /\ fin = FALSE
\* COMMIT and ROLLBACK get weight (several copies distinguished by k) so that procedures cross several
\* transaction boundaries; failing statements are generated only near the end (they end the run)
\* (a commit of another process is an external command of the procedure: generated where the configuration has an
\* environment, and only where it succeeds - a failing command would end the run)
ScriptActions == {a \in GenActs : a.act \notin {"disk", "selectpath", "insertpath"} /\ (a.act = "env" => WithEnv)}   \* (path spellings need the directory: in-process runs only)
                 \cup {A(x, "", w, 0) : x \in {"commit", "rollback"}, w \in 1..Weight}
                 \cup {A("select", t, w, 0) : t \in Tables, w \in 1..2}
GenNext ==
  \/ /\ ~fin /\ ~ended /\ Len(hist) <= Depth
     /\ \E a \in ScriptActions : /\ Do(a)
                                  /\ (out'.k # "err" \/ (Len(hist) >= ErrFrom /\ a.act # "env"))
                                  /\ hist' = Append(hist, [a |-> a, exp |-> out']) /\ UNCHANGED fin
  \/ /\ ~fin /\ (ended \/ Len(hist) >= Depth - 3)
     \* a normal end commits; if that COMMIT fails the run has ended by an error after all
     \* ("exit" = EXIT 3, "exit0" = EXIT without a code: the procedure ends without commit whatever the code)
     /\ \E how \in (IF ended THEN {"error"} ELSE IF Unencodable # {} THEN {"commitfail", "exit", "exit0"} ELSE {"normal", "exit", "exit0"}) :
          hist' = Append(hist, [a |-> [act |-> "end", t |-> how, k |-> 0, x |-> 0],
                                exp |-> [k |-> "end", e |-> how, vals |-> <<>>],
                                final |-> [f \in AllFiles |-> Show(FinalDisk(how = "normal")[f])]])
     /\ fin' = TRUE /\ UNCHANGED vars
Emit == fin => PrintT(<<"TRACE", ToJson(hist)>>)
=============================================================================
