CONSTANTS
  Procs <- Procs2
  Files <- Files1
  Programs <- ProgsOneFile
  InitExists <- Files1
  RemoveBeforeRename = FALSE
  RemoveOnFailedCreate = FALSE
  AllowCrash = FALSE
  MaxRetries = 2
SPECIFICATION Spec
INVARIANTS WriterExcludesAll HeldImpliesExclusive ReaderExcludesWriterStart FlockNeverContended NoLostUpdate CleanExit OutcomeDocumented Durable QuiescentClean
PROPERTIES TimeoutHarmless Termination
CHECK_DEADLOCK FALSE
