INIT Init
NEXT Next
CONSTRAINT Emit
CHECK_DEADLOCK FALSE
