---------------------------- MODULE ParallelTrace ----------------------------
(* Differential executions of the real csvq: the same program on the same     *)
(* files with different --cpu values and repeated runs.  Every event carries  *)
(* the program id, the cpu value, the run number and the digest of everything *)
(* the run produced (result rows in order, bytes of every file).  Accepted    *)
(* iff each program has one digest.                                           *)
EXTENDS Integers, Sequences, TLC, Json
Trace == ndJsonDeserialize("trace.ndjson")
VARIABLES l, digest
TraceInit == l = 1 /\ digest = [p \in {} |-> ""]
TraceNext ==
  /\ l <= Len(Trace)
  /\ l' = l + 1
  /\ LET e == Trace[l] IN
       IF e.prog \in DOMAIN digest
         THEN digest[e.prog] = e.digest /\ UNCHANGED digest
         ELSE digest' = (e.prog :> e.digest) @@ digest
TraceAccepted == TLCGet("stats").diameter - 1 = Len(Trace)
=============================================================================
