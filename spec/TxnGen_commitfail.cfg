CONSTANTS
  Files <- F12
  NewFile = "f3"
  SubFile = "g1"
  TempT = "tt"
  Keys <- K13
  Vals <- V5
  MaxRows = 5
  Script = FALSE
  WithEnv = TRUE
  Depth = 9
  GenActs <- ActsCommitFail
  Shape <- ShapeAny
INIT GenInit
NEXT GenNext
CONSTRAINT Emit
CHECK_DEADLOCK FALSE
