INIT BInit
NEXT BNext
INVARIANTS BSatisfiable BSensitive
CHECK_DEADLOCK FALSE
