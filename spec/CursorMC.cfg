CONSTANTS
  Cursors <- OneCursor
  Ids <- IdsSmall
  Vals <- ValsSmall
  Offsets <- OffsetsMC
  MaxRows = 3
  InitTables <- InitSmall
INIT Init
NEXT Next
VIEW ViewNoOut
INVARIANTS PointerInRange ClosedHasNoRows
PROPERTIES Snapshot
CHECK_DEADLOCK FALSE
