CONSTANTS
  Cursors <- CursorsMC
  Ids <- IdsMC
  Vals <- ValsMC
  Offsets <- OffsetsMC
  MaxRows = 4
INIT Init
NEXT Next
VIEW ViewNoOut
INVARIANTS PointerInRange ClosedHasNoRows
PROPERTIES Snapshot
CHECK_DEADLOCK FALSE
