CONSTANTS
  Cursors = {"c1", "c2", "c3"}
  Ids = {0}
  Vals = {0}
  Offsets = {0}
  MaxRows = 100000
  InitTables = {}
INIT TraceInit
NEXT TraceNext
INVARIANTS PointerInRange ClosedHasNoRows
POSTCONDITION TraceAccepted
CHECK_DEADLOCK FALSE
