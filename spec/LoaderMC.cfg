CONSTANTS
 MaxRec = 4
 MaxLen = 3
INIT Init
NEXT Next
INVARIANT Rectangular
CHECK_DEADLOCK FALSE
