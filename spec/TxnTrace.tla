------------------------------ MODULE TxnTrace ------------------------------
(* Trace validation for Txn: histories chosen and executed by the harness on  *)
(* the real csvq (bigger tables, longer histories); TLC replays the actions   *)
(* on the specification and compares the result of every step.               *)
EXTENDS Txn, Json
Trace == ndJsonDeserialize("trace.ndjson")
VARIABLE l
TraceInit == l = 1 /\ Init
TraceNext ==
  /\ l <= Len(Trace)
  /\ l' = l + 1
  /\ LET e == Trace[l] IN
       \/ /\ e.act = "init"
          /\ disk' = [f \in AllFiles |-> IF f \in DOMAIN e.disk THEN e.disk[f] ELSE Absent]
          /\ cache' = [f \in AllFiles |-> NotLoaded]
          /\ dirty' = {} /\ created' = {}
          /\ temp' = [cur |-> T(<<"id", "v">>, <<>>), rp |-> T(<<"id", "v">>, <<>>)]
          /\ ended' = FALSE /\ envn' = 0 /\ enc' = {} /\ cwd' = "top" /\ out' = Ok
       \/ /\ e.act # "init"
          /\ Do(e)
          /\ out'.k = e.obs.k /\ out'.e = e.obs.e /\ out'.vals = e.obs.vals
TraceAccepted == TLCGet("stats").diameter - 1 = Len(Trace)
=============================================================================
