------------------------------- MODULE TxnGen -------------------------------
(* Behaviour generator for Txn (interactive mode: C05, C08, C20).            *)
EXTENDS TxnMC, Json
CONSTANTS Depth, GenActs   \* GenActs: the statements this generator draws from (all, or a family in focus)
VARIABLE hist
GenInit == Init /\ hist = <<[act |-> "init", disk |-> disk]>>
GenNext == /\ Len(hist) <= Depth
           /\ \E a \in GenActs : Do(a) /\ hist' = Append(hist, [a |-> a, exp |-> out'])
Emit == (Len(hist) = Depth + 1) => PrintT(<<"TRACE", ToJson(hist)>>)
=============================================================================
