------------------------------- MODULE TxnGen -------------------------------
(* Behaviour generator for Txn (interactive mode: C05, C08, C20).            *)
EXTENDS TxnMC, Json
CONSTANT Depth
VARIABLE hist
GenInit == Init /\ hist = <<[act |-> "init", disk |-> disk]>>
GenNext == /\ Len(hist) <= Depth
           /\ \E a \in Actions : Do(a) /\ hist' = Append(hist, [a |-> a, exp |-> out'])
Emit == (Len(hist) = Depth + 1) => PrintT(<<"TRACE", ToJson(hist)>>)
=============================================================================
