------------------------------- MODULE TxnGen -------------------------------
(* Behaviour generator for Txn (interactive mode: C05, C08, C20).            *)
EXTENDS TxnMC, Json
CONSTANTS Depth, GenActs,   \* GenActs: the statements this generator draws from (all, or a family in focus)
          Shape(_, _)      \* Shape(a, i): statement a may stand at position i (a family may fix how its walks begin)
VARIABLES hist, done
GenInit == Init /\ hist = <<[act |-> "init", disk |-> disk]>> /\ done = FALSE
\* (the last step only marks the behaviour as complete: TLC's simulation evaluates the constraint on every candidate successor,
\* so that printing at the last statement would emit one behaviour per candidate - sixty copies of one walk that differ in
\* their last statement; this way every emitted behaviour is a walk of its own)
GenNext == \/ /\ Len(hist) <= Depth /\ ~done
              /\ \E a \in GenActs : Shape(a, Len(hist)) /\ Do(a) /\ hist' = Append(hist, [a |-> a, exp |-> out'])
              /\ UNCHANGED done
           \/ /\ Len(hist) = Depth + 1 /\ ~done
              /\ done' = TRUE /\ UNCHANGED <<vars, hist>>
Emit == done => PrintT(<<"TRACE", ToJson(hist)>>)
=============================================================================
