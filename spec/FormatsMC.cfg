INIT Init
NEXT Next
INVARIANTS ShapeKept NormIdempotent
CHECK_DEADLOCK FALSE
