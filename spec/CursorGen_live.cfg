CONSTANTS
  Cursors <- CursorsMC
  Ids <- IdsMC
  Vals <- ValsMC
  Offsets <- OffsetsMC
  MaxRows = 4
  InitTables <- InitMC
  Depth = 14
  Mode = "live"
INIT GenInit
NEXT GenNext
CONSTRAINT Emit
CHECK_DEADLOCK FALSE
