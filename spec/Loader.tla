------------------------------- MODULE Loader -------------------------------
(***************************************************************************)
(* C19 (b) - record-level loading of delimited text: a file is a sequence  *)
(* of records of arbitrary lengths (a blank line is not a record).  With   *)
(* the strict reader every record must have as many fields as the first    *)
(* line; with --allow-uneven-fields the table is as wide as the longest    *)
(* record, missing header names are generated and short records padded.    *)
(* Whatever the shape, the loaded table is rectangular.                    *)
(***************************************************************************)
EXTENDS Integers, Sequences, FiniteSets, TLC, Json

CONSTANTS MaxRec, MaxLen

Max(s) == CHOOSE x \in {s[i] : i \in 1..Len(s)} : \A i \in 1..Len(s) : s[i] <= x

\* lens = number of fields of every line of the file (first line = header unless noHeader)
\* result: [k |-> "err"] | [k |-> "table", cols, rows]
Load(lens, noHeader, uneven) ==
  IF lens = <<>> THEN [k |-> "empty", cols |-> 0, rows |-> 0]
  ELSE LET nrec == IF noHeader THEN Len(lens) ELSE Len(lens) - 1 IN
    IF uneven THEN [k |-> "table", cols |-> Max(lens), rows |-> nrec]
    ELSE IF \A i \in 1..Len(lens) : lens[i] = lens[1] THEN [k |-> "table", cols |-> lens[1], rows |-> nrec]
    ELSE [k |-> "err", cols |-> 0, rows |-> 0]

Shapes == UNION {[1..n -> 1..MaxLen] : n \in 0..MaxRec}

VARIABLE c
Init == c \in Shapes \X BOOLEAN \X BOOLEAN
Next == UNCHANGED c
Result == Load(c[1], c[2], c[3])
\* every loaded table is rectangular by construction: cols is one number for all records; and it is never
\* narrower than any record
Rectangular == Result.k = "table" => \A i \in 1..Len(c[1]) : c[1][i] <= Result.cols
Emit == PrintT(<<"TRACE", ToJson([lens |-> c[1], noheader |-> c[2], uneven |-> c[3], exp |-> Result])>>)
=============================================================================
