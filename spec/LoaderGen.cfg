CONSTANTS
 MaxRec = 4
 MaxLen = 3
INIT Init
NEXT Next
CONSTRAINT Emit
CHECK_DEADLOCK FALSE
