------------------------------ MODULE Formats ------------------------------
(***************************************************************************)
(* C02 - what csvq writes reads back as the same table.  The byte-level    *)
(* encoders are not modelled; what the statement fixes is format-          *)
(* independent structure: a cell is NULL or a text over an alphabet of     *)
(* atoms (letters, digit, blank, delimiter, quote, LF, CR, tab, colon,     *)
(* backslash, a non-ASCII letter); per format some atoms cannot be spelled *)
(* (the write must then be refused and nothing written), and the read-back *)
(* of a spellable cell is its normal form (NULL = empty where the format   *)
(* has one spelling; fixed-length drops edge blanks).  The shape (records, *)
(* fields, header) is always preserved.                                    *)
(***************************************************************************)
EXTENDS Integers, Sequences, FiniteSets, TLC, Json

Atoms == {"a", "1", "SP", "COMMA", "QUOTE", "LF", "CR", "TAB", "COLON", "BSLASH", "EACUTE"}
Formats == {"CSV", "TSV", "LTSV", "FIXED", "JSON", "JSONL"}

\* a cell: [n |-> TRUE] (NULL) or [n |-> FALSE, s |-> Seq(Atoms)]
Null == [n |-> TRUE, s |-> <<>>]
Txt(s) == [n |-> FALSE, s |-> s]

Has(c, as) == \E i \in 1..Len(c.s) : c.s[i] \in as

\* atoms a format cannot spell inside a value
Unspellable(fmt) ==
  CASE fmt = "LTSV"  -> {"TAB", "LF", "CR"}
    [] fmt = "FIXED" -> {"LF", "CR"}
    [] OTHER -> {}
Spellable(fmt, c) == c.n \/ ~Has(c, Unspellable(fmt))

\* drop blanks (space, tab) at both ends
Blank == {"SP", "TAB"}
RECURSIVE LTrim(_), RTrim(_)
LTrim(s) == IF s # <<>> /\ Head(s) \in Blank THEN LTrim(Tail(s)) ELSE s
RTrim(s) == IF s # <<>> /\ s[Len(s)] \in Blank THEN RTrim(SubSeq(s, 1, Len(s) - 1)) ELSE s

\* the read-back normal form of a spellable cell
\* encl = enclose-all (CSV/TSV): then empty text keeps its own spelling ("") and is not NULL
Norm(fmt, encl, c) ==
  CASE fmt \in {"JSON", "JSONL"} -> c
    [] fmt \in {"CSV", "TSV"} -> IF c.n THEN Null ELSE IF c.s = <<>> /\ ~encl THEN Null ELSE c
    [] fmt = "LTSV"  -> IF c.n \/ c.s = <<>> THEN Null ELSE c
    [] fmt = "FIXED" -> IF c.n \/ RTrim(LTrim(c.s)) = <<>> THEN Null ELSE Txt(RTrim(LTrim(c.s)))

\* a table is a sequence of rows of cells; the header is c1..cn (plain names)
TableSpellable(fmt, rows) == \A i \in 1..Len(rows) : \A j \in 1..Len(rows[i]) : Spellable(fmt, rows[i][j])
ReadBack(fmt, encl, rows) == [i \in 1..Len(rows) |-> [j \in 1..Len(rows[i]) |-> Norm(fmt, encl, rows[i][j])]]

\* what a write followed by a fresh read must give
Expected(fmt, encl, rows) ==
  IF TableSpellable(fmt, rows) THEN [k |-> "ok", rows |-> ReadBack(fmt, encl, rows)]
  ELSE [k |-> "refused", rows |-> <<>>]

-----------------------------------------------------------------------------
(* Generator: every cell of length <= 2 over the alphabet in a 2x2 table whose other cells are plain, *)
(* and every pair of hostile cells side by side; x every format x enclose-all                          *)
Cells1 == {Null, Txt(<<>>)} \cup {Txt(<<a>>) : a \in Atoms} \cup {Txt(<<a, b>>) : a, b \in Atoms}
Hostile == {Null, Txt(<<>>), Txt(<<"COMMA">>), Txt(<<"QUOTE">>), Txt(<<"LF">>), Txt(<<"TAB">>), Txt(<<"COLON">>), Txt(<<"SP">>),
            Txt(<<"a", "LF">>), Txt(<<"QUOTE", "COMMA">>), Txt(<<"SP", "a">>), Txt(<<"BSLASH">>), Txt(<<"CR", "LF">>)}
Plain == Txt(<<"a">>)
Tables == {<<<<c, Plain>>, <<Plain, Txt(<<"1">>)>>>> : c \in Cells1}
          \cup {<<<<Plain, c>>, <<d, Plain>>>> : c, d \in Hostile}
          \cup {<<<<c, d>>>> : c, d \in Hostile}

VARIABLE g
Init == g \in Formats \X BOOLEAN \X Tables
Next == UNCHANGED g
\* the definition keeps the shape and never invents text
ShapeKept == LET e == Expected(g[1], g[2], g[3]) IN
  e.k = "ok" => /\ Len(e.rows) = Len(g[3])
                /\ \A i \in 1..Len(e.rows) : Len(e.rows[i]) = Len(g[3][i])
NormIdempotent == \A i \in 1..Len(g[3]) : \A j \in 1..Len(g[3][i]) :
  LET c == g[3][i][j] IN Spellable(g[1], c) => Norm(g[1], g[2], Norm(g[1], g[2], c)) = Norm(g[1], g[2], c)
Emit == PrintT(<<"TRACE", ToJson([fmt |-> g[1], encl |-> g[2], rows |-> g[3], exp |-> Expected(g[1], g[2], g[3])])>>)
=============================================================================
