------------------------------ MODULE ValuesMC ------------------------------
(* The design check of C06: the laws hold for every pair of the catalog, and *)
(* the generator of the complete operator table replayed against csvq.       *)
EXTENDS Values, Json

VARIABLE p      \* the pair of catalog indices under evaluation

Init == p \in Pairs
Next == UNCHANGED p

Thirds == {k \in 1..N : V(k).lit \in {"NULL", "1", "2.5", "'a'", "'1'", "TRUE", "'2012-02-03'"}}

Row == LET a == V(p[1])  b == V(p[2]) IN
  [a |-> a.lit, b |-> b.lit,
   cmp |-> <<Eq(a, b), Ne(a, b), Lt(a, b), Le(a, b), Gt(a, b), Ge(a, b)>>,
   logic |-> <<And(Tern(a), Tern(b)), Or(Tern(a), Tern(b)), Not(Tern(a))>>,
   is |-> <<IsNull(a), IsTern(a, "T"), IsTern(a, "F"), IsTern(a, "U")>>,
   caseeq |-> CaseEq(a, b),
   arith |-> [o \in 1..5 |-> Arith(Ops[o], a, b)],
   tri |-> [c \in Thirds |-> [c |-> V(c).lit, between |-> Between(a, b, V(c)), in2 |-> In2(a, b, V(c))]]]

Emit == PrintT(<<"TRACE", ToJson(Row)>>)

\* laws restricted to the current pair (INVARIANT over all initial states = all pairs)
PairLaws == LET a == V(p[1])  b == V(p[2]) IN
  /\ Lt(a, b) = Gt(b, a)
  /\ Ne(a, b) = Not(Eq(a, b))
  /\ Eq(a, b) = Eq(b, a)
  /\ (Ordered(Compare(a, b)) => Le(a, b) = Or(Lt(a, b), Eq(a, b)))
  /\ (Ordered(Compare(a, b)) => Ge(a, b) = Or(Gt(a, b), Eq(a, b)))
  /\ \A o \in {"+", "-", "*", "%"} :
        (a.hasI /\ b.hasI /\ ~(o = "%" /\ b.i = 0)) =>
            Arith(o, a, b).v = Arith(o, [a EXCEPT !.hasI = FALSE], [b EXCEPT !.hasI = FALSE]).v
  /\ LET r == Arith("%", a, b) IN
        (r.k \in {"int", "fltv"}) => /\ (r.v = 0 \/ (r.v < 0) = ((IF a.hasI THEN a.i ELSE a.f2) < 0))
                                     /\ Abs(r.v) < Abs(IF b.hasI THEN b.i ELSE b.f2 \div 2)
=============================================================================
