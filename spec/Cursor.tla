------------------------------- MODULE Cursor -------------------------------
(***************************************************************************)
(* C16 - cursors over a table that keeps changing.                         *)
(*                                                                         *)
(* State: one file table t(id, v), its committed base, and the cursors.    *)
(* Every action is one csvq statement (or a short fixed group of           *)
(* statements) and produces an observable result `out`:                    *)
(*   [k |-> "ok"]                       statement succeeded, nothing shown *)
(*   [k |-> "err", e |-> class]         error class                        *)
(*   [k |-> "val", vals |-> <<...>>]    printed values (texts)             *)
(* Mirrors lib/query/cursor.go: OPEN evaluates the query once, pointer -1, *)
(* FETCH moves and clamps to [-1, Len], status expressions.                *)
(***************************************************************************)
EXTENDS Integers, Sequences, FiniteSets, TLC

CONSTANTS Cursors,     \* e.g. {"c1", "c2"}
          Ids, Vals,   \* small integer ranges for generated rows
          Offsets,     \* numbers used with ABSOLUTE / RELATIVE
          InitTables,  \* initial contents of t
          MaxRows

VARIABLES tbl,    \* Seq([id, v])  the table as the transaction sees it
          base,   \* the table at the last COMMIT
          cur,    \* [Cursors -> [decl, q, open, view, idx, fetched]]
          out     \* result of the last action

vars == <<tbl, base, cur, out>>
ViewNoOut == <<tbl, base, cur>>

\* SELECT id, v FROM t | SELECT id, v FROM t WHERE v >= 2 | a prepared SELECT id, v INTO @ia, @ib FROM t (an error if it
\* yields more than one row: the cursor cannot be opened then)
Queries == {"all", "big", "into"}
Eval(q, t) == IF q = "big" THEN SelectSeq(t, LAMBDA r : r.v >= 2) ELSE t

NoCursor == [decl |-> FALSE, q |-> "all", open |-> FALSE, view |-> <<>>, idx |-> 0, fetched |-> FALSE]

Ok == [k |-> "ok", e |-> "", vals |-> <<>>]
Err(e) == [k |-> "err", e |-> e, vals |-> <<>>]
Val(s) == [k |-> "val", e |-> "", vals |-> s]
Tern(b) == IF b THEN "TRUE" ELSE "FALSE"

Init ==
  /\ tbl \in InitTables
  /\ base = tbl
  /\ cur = [c \in Cursors |-> NoCursor]
  /\ out = Ok

-----------------------------------------------------------------------------
Declare(c, q) ==
  /\ IF cur[c].decl
       THEN out' = Err("CursorRedeclared") /\ UNCHANGED cur
       ELSE out' = Ok /\ cur' = [cur EXCEPT ![c] = [NoCursor EXCEPT !.decl = TRUE, !.q = q]]
  /\ UNCHANGED <<tbl, base>>

Dispose(c) ==
  /\ IF ~cur[c].decl
       THEN out' = Err("UndeclaredCursor") /\ UNCHANGED cur
       ELSE out' = Ok /\ cur' = [cur EXCEPT ![c] = NoCursor]
  /\ UNCHANGED <<tbl, base>>

Open(c) ==
  /\ IF ~cur[c].decl THEN out' = Err("UndeclaredCursor") /\ UNCHANGED cur
     ELSE IF cur[c].open THEN out' = Err("CursorOpen") /\ UNCHANGED cur
     ELSE IF cur[c].q = "into" /\ Len(tbl) > 1 THEN out' = Err("SelectIntoTooManyRecords") /\ UNCHANGED cur   \* OPEN failed: the cursor is as it was
     ELSE /\ out' = Ok
          /\ cur' = [cur EXCEPT ![c] = [@ EXCEPT !.open = TRUE, !.view = Eval(cur[c].q, tbl), !.idx = -1, !.fetched = FALSE]]
  /\ UNCHANGED <<tbl, base>>

Close(c) ==
  /\ IF ~cur[c].decl THEN out' = Err("UndeclaredCursor") /\ UNCHANGED cur
     ELSE out' = Ok /\ cur' = [cur EXCEPT ![c] = [@ EXCEPT !.open = FALSE, !.view = <<>>, !.idx = 0, !.fetched = FALSE]]
  /\ UNCHANGED <<tbl, base>>

\* the pointer after a FETCH, 0-based, clamped to [-1, Len]
Moved(c, pos, n) ==
  LET len == Len(cur[c].view)
      raw == CASE pos = "NEXT" -> cur[c].idx + 1
               [] pos = "PRIOR" -> cur[c].idx - 1
               [] pos = "FIRST" -> 0
               [] pos = "LAST" -> len - 1
               [] pos = "ABSOLUTE" -> n
               [] pos = "RELATIVE" -> cur[c].idx + n
  IN IF raw < 0 THEN -1 ELSE IF raw >= len THEN len ELSE raw

\* FETCH pos c INTO @a, @b; then the status and (when a row was addressed) the fetched values are shown
Fetch(c, pos, n) ==
  /\ IF ~cur[c].decl THEN out' = Err("UndeclaredCursor") /\ UNCHANGED cur
     ELSE IF ~cur[c].open THEN out' = Err("CursorClosed") /\ UNCHANGED cur
     ELSE LET i == Moved(c, pos, n)
              inr == i >= 0 /\ i < Len(cur[c].view) IN
          /\ cur' = [cur EXCEPT ![c] = [@ EXCEPT !.idx = i, !.fetched = TRUE]]
          /\ out' = IF inr THEN Val(<<"TRUE", ToString(cur[c].view[i + 1].id), ToString(cur[c].view[i + 1].v)>>)
                           ELSE Val(<<"FALSE">>)
  /\ UNCHANGED <<tbl, base>>

\* PRINT CURSOR c IS OPEN; IS IN RANGE; COUNT
Status(c) ==
  /\ IF ~cur[c].decl THEN out' = Err("UndeclaredCursor")
     ELSE IF ~cur[c].open THEN out' = Val(<<"FALSE", "CursorClosed", "CursorClosed">>)
     ELSE out' = Val(<<"TRUE",
                       IF ~cur[c].fetched THEN "UNKNOWN" ELSE Tern(cur[c].idx >= 0 /\ cur[c].idx < Len(cur[c].view)),
                       ToString(Len(cur[c].view))>>)
  /\ UNCHANGED <<tbl, base, cur>>

\* WHILE @a, @b IN c DO PRINT @a; END WHILE  - visits the remaining rows once, in order
WhileIn(c) ==
  /\ IF ~cur[c].decl THEN out' = Err("UndeclaredCursor") /\ UNCHANGED cur
     ELSE IF ~cur[c].open THEN out' = Err("CursorClosed") /\ UNCHANGED cur
     ELSE LET len == Len(cur[c].view)
              from == cur[c].idx + 1 IN      \* first row visited (0-based)
          /\ out' = Val([k \in 1..(IF from >= len THEN 0 ELSE len - from) |-> ToString(cur[c].view[from + k].id)])
          /\ cur' = [cur EXCEPT ![c] = [@ EXCEPT !.idx = len, !.fetched = TRUE]]
  /\ UNCHANGED <<tbl, base>>

\* WHILE @a, @b IN c DO PRINT @a; DISPOSE CURSOR c; END WHILE : the body runs for the first remaining row; the next fetch
\* finds no cursor of that name (the loop names its cursor, it does not hold it)
WhileInDispose(c) ==
  /\ IF ~cur[c].decl THEN out' = Err("UndeclaredCursor") /\ UNCHANGED cur
     ELSE IF ~cur[c].open THEN out' = Err("CursorClosed") /\ UNCHANGED cur
     ELSE IF cur[c].idx + 1 >= Len(cur[c].view)
       THEN out' = Val(<<>>) /\ cur' = [cur EXCEPT ![c] = [@ EXCEPT !.idx = Len(cur[c].view), !.fetched = TRUE]]
       ELSE out' = Err("UndeclaredCursor") /\ cur' = [cur EXCEPT ![c] = NoCursor]
  /\ UNCHANGED <<tbl, base>>

\* data changes under the cursors
Insert(id, v) ==
  /\ Len(tbl) < MaxRows
  /\ tbl' = Append(tbl, [id |-> id, v |-> v])
  /\ out' = Ok /\ UNCHANGED <<base, cur>>

Update(id) ==
  /\ tbl' = [i \in 1..Len(tbl) |-> IF tbl[i].id = id THEN [tbl[i] EXCEPT !.v = (@ % 3) + 1] ELSE tbl[i]]
  /\ out' = Ok /\ UNCHANGED <<base, cur>>

\* REPLACE INTO t (id, v) USING (id) VALUES (id, v): the rows with that id get the value, or the row is appended
Replace(id, v) ==
  /\ (\E i \in 1..Len(tbl) : tbl[i].id = id) \/ Len(tbl) < MaxRows
  /\ tbl' = IF \E i \in 1..Len(tbl) : tbl[i].id = id
              THEN [i \in 1..Len(tbl) |-> IF tbl[i].id = id THEN [tbl[i] EXCEPT !.v = v] ELSE tbl[i]]
              ELSE Append(tbl, [id |-> id, v |-> v])
  /\ out' = Ok /\ UNCHANGED <<base, cur>>

Delete(id) ==
  /\ tbl' = SelectSeq(tbl, LAMBDA r : r.id # id)
  /\ out' = Ok /\ UNCHANGED <<base, cur>>

Commit == base' = tbl /\ out' = Ok /\ UNCHANGED <<tbl, cur>>
Rollback == tbl' = base /\ out' = Ok /\ UNCHANGED <<base, cur>>

\* SELECT id, v FROM t  - shows the table (ids then values)
Show ==
  /\ out' = Val([k \in 1..(2 * Len(tbl)) |-> IF k % 2 = 1 THEN ToString(tbl[(k + 1) \div 2].id) ELSE ToString(tbl[k \div 2].v)])
  /\ UNCHANGED <<tbl, base, cur>>

-----------------------------------------------------------------------------
(* One action record = one step; used by the generator and by trace validation *)
Do(a) ==
  CASE a.act = "declare"  -> Declare(a.c, a.q)
    [] a.act = "dispose"  -> Dispose(a.c)
    [] a.act = "open"     -> Open(a.c)
    [] a.act = "close"    -> Close(a.c)
    [] a.act = "fetch"    -> Fetch(a.c, a.pos, a.n)
    [] a.act = "status"   -> Status(a.c)
    [] a.act = "whilein"  -> WhileIn(a.c)
    [] a.act = "whileindispose" -> WhileInDispose(a.c)
    [] a.act = "insert"   -> Insert(a.id, a.v)
    [] a.act = "update"   -> Update(a.id)
    [] a.act = "delete"   -> Delete(a.id)
    [] a.act = "replace"  -> Replace(a.id, a.v)
    [] a.act = "commit"   -> Commit
    [] a.act = "rollback" -> Rollback
    [] a.act = "show"     -> Show

A(act, c, q, pos, n, id, v) == [act |-> act, c |-> c, q |-> q, pos |-> pos, n |-> n, id |-> id, v |-> v]

Actions ==
  {A("declare", c, q, "", 0, 0, 0) : c \in Cursors, q \in Queries}
  \cup {A(x, c, "", "", 0, 0, 0) : x \in {"dispose", "open", "close", "status", "whilein", "whileindispose"}, c \in Cursors}
  \cup {A("fetch", c, "", pos, 0, 0, 0) : c \in Cursors, pos \in {"NEXT", "PRIOR", "FIRST", "LAST"}}
  \cup {A("fetch", c, "", pos, n, 0, 0) : c \in Cursors, pos \in {"ABSOLUTE", "RELATIVE"}, n \in Offsets}
  \cup {A(x, "", "", "", 0, id, v) : x \in {"insert", "replace"}, id \in Ids, v \in Vals}
  \cup {A(x, "", "", "", 0, id, 0) : x \in {"update", "delete"}, id \in Ids}
  \cup {A(x, "", "", "", 0, 0, 0) : x \in {"commit", "rollback", "show"}}

Next == \E a \in Actions : Do(a)
Spec == Init /\ [][Next]_vars

-----------------------------------------------------------------------------
(* Properties of the design                                                 *)
PointerInRange == \A c \in Cursors : cur[c].open => cur[c].idx >= -1 /\ cur[c].idx <= Len(cur[c].view)
ClosedHasNoRows == \A c \in Cursors : ~cur[c].open => cur[c].view = <<>>
\* a data-changing statement never changes what an open cursor will return
Snapshot == [][\A c \in Cursors : (cur[c].open /\ cur'[c].open /\ cur'[c].decl) => cur'[c].view = cur[c].view]_vars
\* a cursor that is not open never yields a row
NoStaleRow == \A c \in Cursors : (out.k = "val" /\ Len(out.vals) = 3 /\ out.vals[1] = "TRUE" /\ out.vals[2] # "UNKNOWN") => TRUE
=============================================================================
