----------------------------- MODULE PrintParse -----------------------------
(***************************************************************************)
(* C18 (the part a specification decides): for the programs the other      *)
(* specifications generate (value expressions of Values.tla over the whole *)
(* catalog and all operators, the statements of the sweeps), printing the  *)
(* parsed tree and parsing it again is a fixpoint and evaluates the same.  *)
(* Each recorded event is one text:                                        *)
(*   kind "roundtrip": printed once (p1), re-parsed, printed again (p2),   *)
(*                     evaluated from the original text and from p1        *)
(*   kind "mutant":    a byte-level mutation of a valid text fed to the    *)
(*                     parser (by-product exploration of totality)         *)
(***************************************************************************)
EXTENDS Integers, Sequences, TLC, Json
Trace == ndJsonDeserialize("trace.ndjson")
VARIABLE l
Fixpoint(e) == e.reparsed /\ e.p1 = e.p2
SameEvaluation(e) == e.eval1 = e.eval2
Total(e) == ~e.panicked /\ (e.ok \/ (e.line >= 1 /\ e.line <= e.lines /\ e.col >= 0 /\ e.col <= e.maxcol + 1))
TraceInit == l = 1
\* a rejected event is printed and the trace goes on: one run judges every event, a known finding early in the trace
\* does not keep the later ones from being judged
Ok(e) == CASE e.kind = "roundtrip" -> Fixpoint(e) /\ SameEvaluation(e)
           [] e.kind = "mutant"    -> Total(e)
TraceNext ==
  /\ l <= Len(Trace)
  /\ l' = l + 1
  /\ IF Ok(Trace[l]) THEN TRUE ELSE PrintT(<<"TRACE", ToJson([reject |-> l])>>)
TraceAccepted == TLCGet("stats").diameter - 1 = Len(Trace)
=============================================================================
