CONSTANTS
  Files <- F12
  NewFile = "f3"
  SubFile = "g1"
  TempT = "tt"
  Keys <- K13
  Vals <- V5
  MaxRows = 5
  Script = TRUE
  WithEnv = FALSE
  Depth = 14
  GenActs <- ActsAll
  Weight = 10
  ErrFrom = 13
INIT GenInit
NEXT GenNext
CONSTRAINT Emit
CHECK_DEADLOCK FALSE
