CONSTANTS
  Fuel = 12
  ProgSet <- Programs
INIT Init
NEXT Next
CONSTRAINT Emit
CHECK_DEADLOCK FALSE
