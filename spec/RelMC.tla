------------------------------- MODULE RelMC -------------------------------
(* Design checks of Relational.tla on small exhaustive domains.              *)
EXTENDS Relational

\* a small cell repertoire: NULL, numbers in several spellings, text variants
C(k) == Catalog[k]
Cell(lit) == LET k == CHOOSE k \in 1..Len(Catalog) : Catalog[k].lit = lit IN [Catalog[k] EXCEPT !.lit = lit] @@ [t |-> lit]
Rep == {"NULL", "'1'", "' 1 '", "'01'", "'2'", "'1.0'", "'1.5'", "'a'", "'A'", "' a '", "'b'", "'true'", "'a:[S]b'"}
RepCells == {Cell(x) : x \in Rep}

VARIABLE st
Init == st = 0
Next == UNCHANGED st

\* SameBucket as decided is an equivalence on the decided pairs, and "must share" never contradicts "must split"
BucketLaws ==
  /\ \A a \in RepCells : MustShare(a, a)
  /\ \A a, b \in RepCells : MustShare(a, b) = MustShare(b, a)
  /\ \A a, b, c \in RepCells : (MustShare(a, b) /\ MustShare(b, c)) => MustShare(a, c)
  /\ \A a, b \in RepCells : ~(MustShare(a, b) /\ MustSplit(a, b))
  /\ \A a, b \in RepCells : MustSplit(a, b) = MustSplit(b, a)

\* the cut arithmetic: never more rows than there are, PERCENT of the pre-offset count
CutLaws ==
  \A n \in 0..6 : \A m \in -1..8 : \A x \in -1..8 :
     /\ KeptCount(n, m, [k |-> "n", n |-> x]) >= 0
     /\ KeptCount(n, m, [k |-> "n", n |-> x]) <= n - Skip(n, m)
     /\ KeptCount(n, 0, [k |-> "pct", n |-> 100]) = n
     /\ KeptCount(n, m, [k |-> "none", n |-> 0]) = n - Skip(n, m)

\* Precedes is a strict weak order on rows of the repertoire (numeric column)
NumRep == {Cell(x) : x \in {"NULL", "'1'", "' 1 '", "'01'", "'2'", "'1.0'", "'1.5'"}}
Keys1 == {<<[i |-> 1, desc |-> d, nf |-> f]>> : d, f \in BOOLEAN}
OrderLaws ==
  \A ks \in Keys1 : \A a, b, c \in NumRep :
     /\ ~Precedes(<<a>>, <<a>>, ks)
     /\ ~(Precedes(<<a>>, <<b>>, ks) /\ Precedes(<<b>>, <<a>>, ks))
     /\ (Precedes(<<a>>, <<b>>, ks) /\ Precedes(<<b>>, <<c>>, ks)) => Precedes(<<a>>, <<c>>, ks)
     /\ (Tie(<<a>>, <<b>>, ks) /\ Tie(<<b>>, <<c>>, ks)) => Tie(<<a>>, <<c>>, ks)

NtileLaws == \A n \in 1..7 : \A t \in 1..7 :
     /\ \A p \in 1..n : NtileAt(n, t, p) >= 1 /\ NtileAt(n, t, p) <= t
     /\ \A p \in 1..(n - 1) : NtileAt(n, t, p) <= NtileAt(n, t, p + 1) /\ NtileAt(n, t, p + 1) <= NtileAt(n, t, p) + 1
=============================================================================
