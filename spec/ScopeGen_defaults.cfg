CONSTANTS
  Fuel = 12
  ProgSet <- Sk11
INIT Init
NEXT Next
CONSTRAINT Emit
CHECK_DEADLOCK FALSE
