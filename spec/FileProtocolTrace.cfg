CONSTANTS
  Procs <- Procs3
  Files <- Files2
  Programs <- ProgsOneFile
  InitExists <- Files2
  RemoveBeforeRename = FALSE
  RemoveOnFailedCreate = FALSE
  AllowCrash = TRUE
  MaxRetries = 1000000
INIT TraceInit
NEXT TraceNext
INVARIANTS WriterExcludesAll HeldImpliesExclusive ReaderExcludesWriterStart NoLostUpdate CleanExit Durable CrashLeavesOldOrNew
POSTCONDITION TraceAccepted
CHECK_DEADLOCK FALSE
