-------------------------- MODULE FileProtocolObs --------------------------
(* Observation specification (layer 2): the property statements of C09,     *)
(* C10 (crash-free part) and C11 themselves, over what the harness observes  *)
(* of ANY execution of the real code - no assumption about the order or     *)
(* number of file-system steps.  Used for the verdict; a trace the strict    *)
(* specification rejects but this one accepts is model drift, not a         *)
(* violation.                                                               *)
(*                                                                         *)
(* Semantic events used: arrival at load.done (the table has been loaded),  *)
(* commit.swapped (the new contents are installed), commit.done/close.done  *)
(* (the handler is released), exited (with the outcome).                    *)
EXTENDS Integers, Sequences, FiniteSets, TLC, Json

CONSTANTS Procs, Files

Trace == ndJsonDeserialize("trace.ndjson")

VARIABLES l,
  holdU,      \* [Files -> SUBSET Procs]  transactions holding the table for update
  reading,    \* [Files -> SUBSET Procs]  processes between "loaded for read" and "read handler closed"
  ver,        \* [Files -> Int]  last complete version seen on disk
  ncommit,    \* [Files -> Int]  installs observed
  must,       \* SUBSET Files    tables that exist as far as committed transactions know
  failed,     \* SUBSET Procs   processes whose failure has been judged
  pend,       \* [inc |-> BOOLEAN, fs |-> SUBSET Files]  a COMMIT statement is under way (tx.commit.begin seen, tx.commit.end
              \*   not yet) and the tables it has installed that no committed transaction knew
  bad,        \* "" or the name of the first violated observation of the current execution
  tno         \* number of the current execution in the trace file

ovars == <<l, holdU, reading, ver, ncommit, must, failed, pend, bad, tno>>

ObsInit ==
  /\ l = 1
  /\ holdU = [f \in Files |-> {}]
  /\ reading = [f \in Files |-> {}]
  /\ ver = [f \in Files |-> 0]
  /\ ncommit = [f \in Files |-> 0]
  /\ must = {}
  /\ failed = {}
  /\ pend = [inc |-> FALSE, fs |-> {}]
  /\ bad = ""
  /\ tno = 0

Reset(e) ==
  /\ holdU' = [f \in Files |-> {}]
  /\ reading' = [f \in Files |-> {}]
  /\ ver' = [f \in Files |-> 0]
  /\ ncommit' = [f \in Files |-> 0]
  /\ must' = {f \in Files : e.exists[f]}
  /\ failed' = {}
  /\ pend' = [inc |-> FALSE, fs |-> {}]
  /\ bad' = ""
  /\ tno' = tno + 1

Installs(e, f) == e.pt = "commit.swapped" /\ e.f = f
HasDir(e) == "dir" \in DOMAIN e      \* runs of the real binary log the directory only at the end
HasOp(e) == "op" \in DOMAIN e

\* the checks made on one event e (state before: unprimed); result "" or the name of the broken clause
Check(e) ==
  LET hU == [f \in Files |-> IF e.pt = "load.done" /\ e.op = "update" /\ e.f = f THEN holdU[f] \cup {e.p}
                             ELSE IF e.pt \in {"commit.done", "close.done"} /\ e.op # "read" /\ e.f = f THEN holdU[f] \ {e.p}
                             ELSE IF e.pt = "exited" THEN holdU[f] \ {e.p}
                             ELSE holdU[f]]
      rd == [f \in Files |-> IF e.pt = "load.done" /\ e.op = "read" /\ e.f = f THEN reading[f] \cup {e.p}
                             ELSE IF e.pt = "close.done" /\ e.op = "read" /\ e.f = f THEN reading[f] \ {e.p}
                             ELSE IF e.pt = "exited" THEN reading[f] \ {e.p}
                             ELSE reading[f]]
  IN
  IF ~HasDir(e) THEN ""
  ELSE IF \E f \in Files : Cardinality(hU[f]) > 1 THEN "ObsMutex:two-holders"
  ELSE IF \E f \in Files : hU[f] # {} /\ rd[f] # {} THEN "ObsMutex:read-while-held"
  \* a table taken for update is held until the transaction ends: a handler of it that is released while the process is
  \* still executing a statement that takes tables (not COMMIT, ROLLBACK or its end) and has not failed gives the table away
  ELSE IF HasOp(e) /\ e.pt \in {"close.done", "commit.done"} /\ e.op = "update" /\ e.out = "run" /\ e.f \in Files /\ e.p \in holdU[e.f]
       THEN "ObsHeldUntilEnd:released-within-statement"
  ELSE IF \E f \in must : ~e.dir[f].exists THEN "ObsDurable:table-missing"
  ELSE IF \E f \in must : e.dir[f].ver < 0 THEN "ObsDurable:table-incomplete"
  ELSE IF \E f \in must : e.dir[f].ver # ver[f] /\ ~(Installs(e, f) /\ e.dir[f].ver = ver[f] + 1)
       THEN "ObsNoLostUpdate:version-change"
  ELSE IF \E f \in must : Installs(e, f) /\ e.dir[f].ver # ver[f] + 1 THEN "ObsNoLostUpdate:install-not-increment"
  \* documented outcomes for a table that exists: success or lock timeout (CREATE TABLE does not wait);
  \* an internal failure is never one
  \* (judged at the event at which the failure first shows, against the tables existing then)
  ELSE IF e.p \notin failed /\ e.out = "fatal" THEN "ObsOutcome:fatal"
  ELSE IF e.p \notin failed /\ e.out \in {"notexist", "io"} /\ e.fo # "create" /\ e.ff \in must THEN "ObsOutcome:" \o e.out
  ELSE ""

Apply(e) ==
  /\ holdU' = [f \in Files |-> IF e.pt = "load.done" /\ e.op = "update" /\ e.f = f THEN holdU[f] \cup {e.p}
                             ELSE IF e.pt \in {"commit.done", "close.done"} /\ e.op # "read" /\ e.f = f THEN holdU[f] \ {e.p}
                             ELSE IF e.pt = "exited" THEN holdU[f] \ {e.p}
                             ELSE holdU[f]]
  /\ reading' = [f \in Files |-> IF e.pt = "load.done" /\ e.op = "read" /\ e.f = f THEN reading[f] \cup {e.p}
                             ELSE IF e.pt = "close.done" /\ e.op = "read" /\ e.f = f THEN reading[f] \ {e.p}
                             ELSE IF e.pt = "exited" THEN reading[f] \ {e.p}
                             ELSE reading[f]]
  /\ ver' = [f \in Files |-> IF HasDir(e) /\ f \in must /\ e.dir[f].exists /\ e.dir[f].ver >= 0 THEN e.dir[f].ver ELSE ver[f]]
  /\ ncommit' = [f \in Files |-> IF f \in must /\ Installs(e, f) THEN ncommit[f] + 1 ELSE ncommit[f]]
  /\ must' = must \cup {f \in Files : Installs(e, f) /\ (HasDir(e) => e.dir[f].exists)}
  /\ failed' = IF e.out \notin {"run", "ok"} THEN failed \cup {e.p} ELSE failed
  \* a COMMIT statement that does not reach its end has failed: the transaction is not committed, and what it
  \* created must not stay (runs of the binary log tx.commit.begin / tx.commit.end; single process)
  /\ pend' = IF e.pt = "tx.commit.begin" THEN [inc |-> TRUE, fs |-> {}]
             ELSE IF e.pt = "tx.commit.end" THEN [inc |-> FALSE, fs |-> {}]
             ELSE IF pend.inc THEN [pend EXCEPT !.fs = @ \cup {f \in Files \ must : Installs(e, f)}]
             ELSE pend
  /\ bad' = IF bad # "" THEN bad ELSE Check(e)
  /\ UNCHANGED tno

\* the end of one execution: every process has exited (none was killed)
EndCheck(e) ==
  IF \E f \in Files : e.dir[f].lock \/ e.dir[f].nrlock > 0 \/ e.dir[f].temp THEN "ObsCleanExit:control-file-left"
  ELSE IF "stray" \in DOMAIN e /\ e.stray > 0 THEN "ObsCleanExit:control-file-left"      \* ... of any other table of the directory
  ELSE IF \E f \in must : e.dir[f].ver # ncommit[f] THEN "ObsNoLostUpdate:final-count"
  ELSE IF \E f \in Files \ must : e.dir[f].exists THEN "ObsCleanExit:uncommitted-table-left"
  ELSE IF pend.inc /\ \E f \in pend.fs : e.dir[f].exists THEN "ObsCleanExit:table-created-by-failed-commit-left"
  ELSE IF \E f \in must : ~e.dir[f].exists THEN "ObsDurable:table-missing"
  ELSE IF "readonly" \in DOMAIN e /\ e.readonly /\ ~e.unchanged THEN "ObsReadOnly:files-changed"
  ELSE ""

ObsNext ==
  /\ l <= Len(Trace)
  /\ l' = l + 1
  /\ LET e == Trace[l] IN
       \/ e.a = "init" /\ Reset(e)
       \/ e.a \in {"step", "timeout"} /\ Apply(e)
       \/ /\ e.a = "end"
          /\ bad' = IF bad # "" THEN bad ELSE EndCheck(e)
          /\ PrintT(<<"OBS", tno, bad'>>)          \* the verdict of this execution, read by the harness
          /\ UNCHANGED <<holdU, reading, ver, ncommit, must, failed, pend, tno>>

ObsSpec == ObsInit /\ [][ObsNext]_ovars

ObsAccepted == TLCGet("stats").diameter - 1 = Len(Trace)
=============================================================================
