CONSTANTS
 N = 6
 W = 3
 Key <- Key6
 Discipline = "discoverFirstIndex"
INIT Init
NEXT Next
INVARIANTS PartitionExact Deterministic
CHECK_DEADLOCK FALSE
