CONSTANTS
  Procs <- Procs2
  Files <- Files2
  Programs <- ProgsTwoFiles
  InitExists <- Files2
  RemoveBeforeRename = FALSE
  RemoveOnFailedCreate = FALSE
  AllowCrash = FALSE
  MaxRetries = 2
INIT GenInit
NEXT GenNext
CONSTRAINT Emit
CHECK_DEADLOCK FALSE
