CONSTANTS
  Files <- F12
  NewFile = "f3"
  SubFile = "g1"
  TempT = "tt"
  Keys <- K13
  Vals <- V5
  MaxRows = 5
  Script = TRUE
  WithEnv = FALSE
  Depth = 10
  Weight = 2
  ErrFrom = 3
  GenActs <- ActsTemp
INIT GenInit
NEXT GenNext
CONSTRAINT Emit
CHECK_DEADLOCK FALSE
