CONSTANTS
  Fuel = 12
  ProgSet <- PoolPrograms
INIT Init
NEXT Next
CONSTRAINT Emit
CHECK_DEADLOCK FALSE
