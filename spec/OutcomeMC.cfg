INIT MInit
NEXT MNext
INVARIANT MatrixSane
CHECK_DEADLOCK FALSE
