INIT Init
NEXT Next
INVARIANT PairLaws
CHECK_DEADLOCK FALSE
