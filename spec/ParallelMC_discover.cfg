CONSTANTS
 N = 6
 W = 3
 Key <- Key6
 Discipline = "discover"
INIT Init
NEXT Next
INVARIANTS PartitionExact Deterministic
CHECK_DEADLOCK FALSE
