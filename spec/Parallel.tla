------------------------------ MODULE Parallel ------------------------------
(***************************************************************************)
(* C12 - results are a function of the inputs, whatever --cpu and whatever *)
(* the goroutine schedule.  Model of how lib/query splits n records over w *)
(* workers (GoroutineTaskManager.RecordRange) and of the merge disciplines *)
(* the engine uses:                                                        *)
(*   "slot"      every worker writes out[i] for its own records i          *)
(*               (filter flags, evalColumn, sort values, Fix)              *)
(*   "concat"    every worker appends to its own list; the lists are       *)
(*               concatenated in worker order afterwards (joins)           *)
(*   "discover"  a worker appends a key to ONE shared list when it meets   *)
(*               the key first (under a mutex)  - View.group as coded      *)
(*   "discoverFirstIndex"  like discover, but the shared list is finally   *)
(*               ordered by the first record index of each key             *)
(* Workers take one record per step; TLC explores every interleaving.      *)
(***************************************************************************)
EXTENDS Integers, Sequences, FiniteSets, TLC

CONSTANTS N,           \* number of records 1..N
          W,           \* number of workers
          Key,         \* [1..N -> keys]  the group key of each record
          Discipline

\* RecordRange: worker k (0-based) gets [k*(N div W), (k+1)*(N div W)) and the last one the rest
Start(k) == k * (N \div W)
End(k) == IF k = W - 1 THEN N ELSE (k + 1) * (N \div W)
RangeOf(k) == {i \in 1..N : i > Start(k) /\ i <= End(k)}

Workers == 0..(W - 1)

VARIABLES next,     \* [Workers -> next record (1-based) to process]
          slot,     \* [1..N -> value or 0]
          lists,    \* [Workers -> Seq(record)]
          shared    \* Seq(key)

vars == <<next, slot, lists, shared>>

Init == /\ next = [k \in Workers |-> Start(k) + 1]
        /\ slot = [i \in 1..N |-> 0]
        /\ lists = [k \in Workers |-> <<>>]
        /\ shared = <<>>

InSeq(s, x) == \E i \in 1..Len(s) : s[i] = x

Step(k) ==
  /\ next[k] <= End(k)
  /\ LET i == next[k] IN
       /\ next' = [next EXCEPT ![k] = i + 1]
       /\ slot' = [slot EXCEPT ![i] = Key[i]]
       /\ lists' = [lists EXCEPT ![k] = Append(@, i)]
       /\ shared' = IF InSeq(shared, Key[i]) THEN shared ELSE Append(shared, Key[i])

Next == \E k \in Workers : Step(k)
Done == \A k \in Workers : next[k] > End(k)

\* the partition is exact: disjoint ranges covering 1..N
PartitionExact == /\ \A j, k \in Workers : j # k => RangeOf(j) \cap RangeOf(k) = {}
                  /\ UNION {RangeOf(k) : k \in Workers} = 1..N

\* sequential results
RECURSIVE SeqKeys(_)
SeqKeys(i) == IF i = 0 THEN <<>> ELSE LET p == SeqKeys(i - 1) IN IF InSeq(p, Key[i]) THEN p ELSE Append(p, Key[i])
RECURSIVE Cat(_)
Cat(k) == IF k < 0 THEN <<>> ELSE Cat(k - 1) \o lists[k]
FirstIdx(key) == CHOOSE i \in 1..N : Key[i] = key /\ \A j \in 1..(i - 1) : Key[j] # key
SortedByFirst(s) == \A a \in 1..Len(s) : \A b \in (a + 1)..Len(s) : FirstIdx(s[a]) < FirstIdx(s[b])

Output == CASE Discipline = "slot" -> [i \in 1..N |-> slot[i]]
            [] Discipline = "concat" -> Cat(W - 1)
            [] Discipline = "discover" -> shared
            [] Discipline = "discoverFirstIndex" -> SeqKeys(N)     \* the shared list re-ordered by first index = sequential order

Sequential == CASE Discipline = "slot" -> [i \in 1..N |-> Key[i]]
                [] Discipline = "concat" -> [i \in 1..N |-> i]
                [] Discipline \in {"discover", "discoverFirstIndex"} -> SeqKeys(N)

\* C12 on the model: whatever the schedule, the finished output is the sequential one
Deterministic == Done => Output = Sequential
=============================================================================
