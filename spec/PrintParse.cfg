INIT TraceInit
NEXT TraceNext
POSTCONDITION TraceAccepted
CHECK_DEADLOCK FALSE
