INIT MInit
NEXT MNext
CONSTRAINT Emit
CHECK_DEADLOCK FALSE
