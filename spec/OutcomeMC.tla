------------------------------ MODULE OutcomeMC ------------------------------
EXTENDS Outcome
VARIABLE cell
MInit == cell \in States \X Ops
MNext == UNCHANGED cell
MatrixSane == Allowed(cell[1], cell[2]) # {} /\ "fatal" \notin Allowed(cell[1], cell[2])
Emit == PrintT(<<"TRACE", ToJson([state |-> cell[1], op |-> cell[2]])>>)
=============================================================================
