CONSTANTS
 Objs <- O3
 Holders <- H2
 Vals <- V2
 Disciplined = FALSE
INIT Init
NEXT Next
INVARIANTS NoAlias
CHECK_DEADLOCK FALSE
