------------------------------- MODULE Values -------------------------------
(***************************************************************************)
(* C06 - csvq's value semantics as documented: the coercion ladder of the  *)
(* relational operators (integer, float, datetime, boolean, text; UNKNOWN  *)
(* with NULL or when nothing applies), Kleene logic, the expansions of     *)
(* BETWEEN / IN / IS / CASE, and the typing rules of arithmetic.           *)
(*                                                                         *)
(* Operators are defined over the ATTRIBUTES of a value (which conversions *)
(* succeed, and to what), not over its spelling; the catalog              *)
(* (ValuesCatalog.tla) tabulates the attributes of ~60 values of every     *)
(* class from the manual's conversion table.                               *)
(***************************************************************************)
EXTENDS Integers, Sequences, FiniteSets, TLC, ValuesCatalog

N == Len(Catalog)
V(k) == Catalog[k]

-----------------------------------------------------------------------------
(* Comparison ladder                                                        *)

CmpInt(x, y) == IF x = y THEN "Eq" ELSE IF x < y THEN "Lt" ELSE "Gt"

\* floats: NaN is not equal to anything; -Inf < numbers < +Inf
FRank(a) == CASE a.fk = "ninf" -> -1 [] a.fk = "pinf" -> 1 [] OTHER -> 0
CmpFlt(a, b) ==
  IF a.fk = "nan" \/ b.fk = "nan" THEN "Ne"
  ELSE IF FRank(a) # FRank(b) THEN CmpInt(FRank(a), FRank(b))
  ELSE IF a.fk # "num" THEN "Eq"
  ELSE CmpInt(a.f2, b.f2)

\* "Eq" | "BoolEq" | "Ne" | "Lt" | "Gt" | "Inc"(ommensurable)
Compare(a, b) ==
  IF a.n \/ b.n THEN "Inc"
  ELSE IF a.hasI /\ b.hasI THEN CmpInt(a.i, b.i)
  ELSE IF a.hasF /\ b.hasF THEN CmpFlt(a, b)
  ELSE IF a.hasD /\ b.hasD THEN CmpInt(a.d, b.d)
  ELSE IF a.hasB /\ b.hasB THEN (IF a.b = b.b THEN "BoolEq" ELSE "Ne")
  ELSE IF a.isS /\ b.isS THEN CmpInt(a.ur, b.ur)
  ELSE "Inc"

T3(b) == IF b THEN "T" ELSE "F"
Ordered(r) == r \in {"Eq", "Lt", "Gt"}

Eq(a, b) == LET r == Compare(a, b) IN IF r = "Inc" THEN "U" ELSE T3(r \in {"Eq", "BoolEq"})
Ne(a, b) == LET r == Compare(a, b) IN IF r = "Inc" THEN "U" ELSE T3(r \notin {"Eq", "BoolEq"})
Lt(a, b) == LET r == Compare(a, b) IN IF Ordered(r) THEN T3(r = "Lt") ELSE "U"
Gt(a, b) == LET r == Compare(a, b) IN IF Ordered(r) THEN T3(r = "Gt") ELSE "U"
Le(a, b) == LET r == Compare(a, b) IN IF Ordered(r) THEN T3(r # "Gt") ELSE "U"
Ge(a, b) == LET r == Compare(a, b) IN IF Ordered(r) THEN T3(r # "Lt") ELSE "U"

-----------------------------------------------------------------------------
(* Kleene logic over the ternary value of an operand                        *)
And(x, y) == IF x = "F" \/ y = "F" THEN "F" ELSE IF x = "U" \/ y = "U" THEN "U" ELSE "T"
Or(x, y)  == IF x = "T" \/ y = "T" THEN "T" ELSE IF x = "U" \/ y = "U" THEN "U" ELSE "F"
Not(x)    == CASE x = "T" -> "F" [] x = "F" -> "T" [] OTHER -> "U"
Tern(a)   == IF a.n THEN "U" ELSE a.tern

\* documented expansions
Between(a, lo, hi) == And(Ge(a, lo), Le(a, hi))
In2(a, b, c)       == Or(Eq(a, b), Eq(a, c))
IsNull(a)          == T3(a.n)
IsTern(a, t)       == T3(Tern(a) = t)
CaseEq(a, b)       == T3(Eq(a, b) = "T")       \* CASE a WHEN b THEN 'T' ELSE 'F' END

-----------------------------------------------------------------------------
(* Arithmetic: [k, v]  k = "null" | "int" | "flt" (value not claimed) | "fltv" (integral value v) | "err" *)
Res(k, v) == [k |-> k, v |-> v]
Integral(a) == a.hasF /\ a.fk = "num" /\ a.f2 % 2 = 0

Abs(x) == IF x < 0 THEN -x ELSE x
\* truncated division and remainder with the sign of the dividend, as for integers
TDiv(x, y) == IF (x < 0) = (y < 0) THEN Abs(x) \div Abs(y) ELSE -(Abs(x) \div Abs(y))
TMod(x, y) == x - y * TDiv(x, y)

Arith(op, a, b) ==
  IF a.n \/ b.n THEN Res("null", 0)
  ELSE IF a.hasI /\ b.hasI THEN
    CASE op = "+" -> Res("int", a.i + b.i)
      [] op = "-" -> Res("int", a.i - b.i)
      [] op = "*" -> Res("int", a.i * b.i)
      [] op = "/" -> IF b.i = 0 THEN Res("err", 0) ELSE Res("int", TDiv(a.i, b.i))
      [] op = "%" -> IF b.i = 0 THEN Res("err", 0) ELSE Res("int", TMod(a.i, b.i))
  ELSE IF a.hasF /\ b.hasF THEN
    IF Integral(a) /\ Integral(b) THEN
      LET x == a.f2 \div 2  y == b.f2 \div 2 IN
      CASE op = "+" -> Res("fltv", x + y)
        [] op = "-" -> Res("fltv", x - y)
        [] op = "*" -> Res("fltv", x * y)
        [] op = "/" -> IF y # 0 /\ TMod(x, y) = 0 THEN Res("fltv", TDiv(x, y)) ELSE Res("flt", 0)
        [] op = "%" -> IF y = 0 THEN Res("flt", 0) ELSE Res("fltv", TMod(x, y))     \* agrees with integer %
    ELSE Res("flt", 0)
  ELSE Res("null", 0)

Ops == <<"+", "-", "*", "/", "%">>

-----------------------------------------------------------------------------
(* The consistency laws of the property, over all pairs of the catalog       *)
Pairs == (1..N) \X (1..N)
LawLtGt    == \A p \in Pairs : Lt(V(p[1]), V(p[2])) = Gt(V(p[2]), V(p[1]))
LawNeNotEq == \A p \in Pairs : Ne(V(p[1]), V(p[2])) = Not(Eq(V(p[1]), V(p[2])))
LawEqSym   == \A p \in Pairs : Eq(V(p[1]), V(p[2])) = Eq(V(p[2]), V(p[1]))
LawLe      == \A p \in Pairs : Ordered(Compare(V(p[1]), V(p[2]))) =>
                 Le(V(p[1]), V(p[2])) = Or(Lt(V(p[1]), V(p[2])), Eq(V(p[1]), V(p[2])))
LawArithAgree == \A p \in Pairs : \A o \in {"+", "-", "*", "%"} :
                 LET a == V(p[1])  b == V(p[2]) IN
                 (a.hasI /\ b.hasI /\ ~(o = "%" /\ b.i = 0)) =>
                    \* the same operands spelled as floats give the same number
                    Arith(o, a, b).v = Arith(o, [a EXCEPT !.hasI = FALSE], [b EXCEPT !.hasI = FALSE]).v
LawModSign == \A p \in Pairs : LET a == V(p[1])  b == V(p[2])  r == Arith("%", a, b) IN
                 (r.k \in {"int", "fltv"}) => /\ (r.v = 0 \/ (r.v < 0) = ((IF a.hasI THEN a.i ELSE a.f2) < 0))
                                              /\ Abs(r.v) < Abs(IF b.hasI THEN b.i ELSE b.f2 \div 2)
Laws == LawLtGt /\ LawNeNotEq /\ LawEqSym /\ LawLe /\ LawArithAgree /\ LawModSign
=============================================================================
