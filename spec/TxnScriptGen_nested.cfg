CONSTANTS
  Files <- F12
  NewFile = "f3"
  SubFile = "g1"
  TempT = "tt"
  Keys <- K13
  Vals <- V5
  MaxRows = 5
  Script = TRUE
  WithEnv = TRUE
  Depth = 10
  Weight = 1
  ErrFrom = 9
  GenActs <- ActsNested
INIT GenInit
NEXT GenNext
CONSTRAINT Emit
CHECK_DEADLOCK FALSE
