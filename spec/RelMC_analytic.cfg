INIT Init
NEXT Next
INVARIANTS NtileLaws
CHECK_DEADLOCK FALSE
