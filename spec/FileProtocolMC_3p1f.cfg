CONSTANTS
  Procs <- Procs3
  Files <- Files1
  Programs <- ProgsSmall
  InitExists <- Files1
  RemoveBeforeRename = FALSE
  RemoveOnFailedCreate = FALSE
  AllowCrash = FALSE
  MaxRetries = 1
SPECIFICATION Spec
INVARIANTS WriterExcludesAll HeldImpliesExclusive ReaderExcludesWriterStart FlockNeverContended NoLostUpdate CleanExit OutcomeDocumented Durable QuiescentClean
PROPERTIES TimeoutHarmless Termination
CHECK_DEADLOCK FALSE
