----------------------------- MODULE Relational -----------------------------
(***************************************************************************)
(* Relational semantics of csvq's SELECT as definitions (set theory, no    *)
(* algorithms):                                                            *)
(*   C03  FROM / WHERE / select list / joins                               *)
(*   C04  buckets of DISTINCT, GROUP BY, set operators; aggregates         *)
(*   C07  ORDER BY as a sorted permutation; OFFSET / LIMIT / PERCENT / TIES*)
(*   C17  analytic functions per partition and frame                       *)
(*                                                                         *)
(* A cell is an attribute record as in Values.tla (which conversions       *)
(* succeed, and to what) plus its text `t`; a row is a sequence of cells;  *)
(* a table is [cols, rows].  File cells are text or NULL.                  *)
(***************************************************************************)
EXTENDS Values

-----------------------------------------------------------------------------
(* 1. Cells, rows, bags                                                      *)

TextOf(c) == IF c.n THEN "NULL" ELSE c.t
RowText(r) == [i \in 1..Len(r) |-> TextOf(r[i])]

Range(s) == {s[i] : i \in 1..Len(s)}
\* number of positions of s holding x
CountIn(s, x) == Cardinality({i \in 1..Len(s) : s[i] = x})
SameBag(s1, s2) == Len(s1) = Len(s2) /\ \A x \in Range(s1) \cup Range(s2) : CountIn(s1, x) = CountIn(s2, x)
TextRows(rows) == [i \in 1..Len(rows) |-> RowText(rows[i])]

-----------------------------------------------------------------------------
(* 2. Conditions and value expressions over a row (columns by position)      *)
(* e = [k |-> "col", i] | [k |-> "lit", v] | [k |-> "cmp", op, l, r] |        *)
(*     [k |-> "and"/"or", l, r] | [k |-> "not", l] | [k |-> "isnull", l] |    *)
(*     [k |-> "in", l, r, r2] | [k |-> "between", l, r, r2]                   *)

RECURSIVE ValOf(_, _), Truth(_, _)
ValOf(e, row) ==
  CASE e.k = "col" -> row[e.i]
    [] e.k = "lit" -> e.v

CmpOp(op, a, b) ==
  CASE op = "="  -> Eq(a, b) [] op = "<>" -> Ne(a, b) [] op = "<" -> Lt(a, b)
    [] op = "<=" -> Le(a, b) [] op = ">"  -> Gt(a, b) [] op = ">=" -> Ge(a, b)

Truth(e, row) ==
  CASE e.k = "true"    -> "T"
    [] e.k = "cmp"     -> CmpOp(e.op, ValOf(e.l, row), ValOf(e.r, row))
    [] e.k = "and"     -> And(Truth(e.l, row), Truth(e.r, row))
    [] e.k = "or"      -> Or(Truth(e.l, row), Truth(e.r, row))
    [] e.k = "not"     -> Not(Truth(e.l, row))
    [] e.k = "isnull"  -> IsNull(ValOf(e.l, row))
    [] e.k = "in"      -> In2(ValOf(e.l, row), ValOf(e.r, row), ValOf(e.r2, row))
    [] e.k = "between" -> Between(ValOf(e.l, row), ValOf(e.r, row), ValOf(e.r2, row))

-----------------------------------------------------------------------------
(* 3. FROM / WHERE / select list (C03)                                       *)

\* a row is kept iff its condition is TRUE; order of the source is kept
Filter(rows, cond) == SelectSeq(rows, LAMBDA r : Truth(cond, r) = "T")
Project(rows, idxs) == [i \in 1..Len(rows) |-> [j \in 1..Len(idxs) |-> rows[i][idxs[j]]]]

NullCell == [n |-> TRUE, t |-> "", hasI |-> FALSE, i |-> 0, hasF |-> FALSE, fk |-> "num", f2 |-> 0,
             hasD |-> FALSE, d |-> 0, hasB |-> FALSE, b |-> FALSE, isS |-> FALSE, ur |-> 0, tern |-> "U"]
Nulls(k) == [j \in 1..k |-> NullCell]

\* all pairs, left-major: the definition of CROSS JOIN (as a bag; csvq's order is left-major too)
RECURSIVE Concat(_)
Concat(ss) == IF ss = <<>> THEN <<>> ELSE Head(ss) \o Concat(Tail(ss))
Cross(L, R) == Concat([i \in 1..Len(L) |-> [j \in 1..Len(R) |-> L[i] \o R[j]]])

\* ON-joins; cond is over the concatenated row
Inner(L, R, cond) == Filter(Cross(L, R), cond)
Partners(l, R, cond) == SelectSeq(R, LAMBDA r : Truth(cond, l \o r) = "T")
PartnersL(L, r, cond) == SelectSeq(L, LAMBDA l : Truth(cond, l \o r) = "T")
\* outer joins pad exactly the rows that have no partner (wl, wr = widths)
LeftJ(L, R, cond, wr) ==
  Concat([i \in 1..Len(L) |-> IF Partners(L[i], R, cond) = <<>> THEN <<L[i] \o Nulls(wr)>>
                              ELSE [j \in 1..Len(Partners(L[i], R, cond)) |-> L[i] \o Partners(L[i], R, cond)[j]]])
RightJ(L, R, cond, wl) ==
  Concat([j \in 1..Len(R) |-> IF PartnersL(L, R[j], cond) = <<>> THEN <<Nulls(wl) \o R[j]>>
                              ELSE [i \in 1..Len(PartnersL(L, R[j], cond)) |-> PartnersL(L, R[j], cond)[i] \o R[j]]])
FullJ(L, R, cond, wl, wr) ==
  LeftJ(L, R, cond, wr) \o Concat([j \in 1..Len(R) |-> IF PartnersL(L, R[j], cond) = <<>> THEN <<Nulls(wl) \o R[j]>> ELSE <<>>])

JoinRows(kind, L, R, cond, wl, wr) ==
  CASE kind = "cross" -> Cross(L, R)
    [] kind = "inner" -> Inner(L, R, cond)
    [] kind = "left"  -> LeftJ(L, R, cond, wr)
    [] kind = "right" -> RightJ(L, R, cond, wl)
    [] kind = "full"  -> FullJ(L, R, cond, wl, wr)

\* USING (cols at positions ul in L and ur in R): the joined columns appear once, first, holding the
\* value of whichever side has one (COALESCE); then the other columns of L, then those of R
UsingCond(ul, ur, wl) ==
  LET RECURSIVE mk(_)
      mk(k) == IF k > Len(ul) THEN [k |-> "true"]
               ELSE [k |-> "and", l |-> [k |-> "cmp", op |-> "=", l |-> [k |-> "col", i |-> ul[k]], r |-> [k |-> "col", i |-> wl + ur[k]]],
                                  r |-> mk(k + 1)]
  IN mk(1)
Coalesce(a, b) == IF a.n THEN b ELSE a
Others(w, used) == SelectSeq([i \in 1..w |-> i], LAMBDA i : \A k \in 1..Len(used) : used[k] # i)
\* (the two sides are equal under = where both are present; the text shown is that of the preserved side:
\* the right one for RIGHT joins, otherwise the left one)
UsingShape(row, ul, ur, wl, wr, preferRight) ==
  [k \in 1..Len(ul) |-> IF preferRight THEN Coalesce(row[wl + ur[k]], row[ul[k]]) ELSE Coalesce(row[ul[k]], row[wl + ur[k]])]
  \o [k \in 1..Len(Others(wl, ul)) |-> row[Others(wl, ul)[k]]]
  \o [k \in 1..Len(Others(wr, ur)) |-> row[wl + Others(wr, ur)[k]]]
UsingJoin(kind, L, R, ul, ur, wl, wr) ==
  LET j == JoinRows(kind, L, R, UsingCond(ul, ur, wl), wl, wr) IN
  [i \in 1..Len(j) |-> UsingShape(j[i], ul, ur, wl, wr, kind = "right")]

-----------------------------------------------------------------------------
(* 4. Buckets (C04)                                                          *)

\* the documented normalisation ladder: integer, float, datetime, boolean, else upper-cased trimmed text
KeyClass(c) == IF c.n THEN "null" ELSE IF c.hasI THEN "int" ELSE IF c.hasF THEN "flt" ELSE IF c.hasD THEN "dt"
               ELSE IF c.hasB THEN "bool" ELSE "str"
NormKey(c) == CASE KeyClass(c) = "null" -> <<"null", 0, "">>
                [] KeyClass(c) = "int"  -> <<"int", c.i, "">>
                [] KeyClass(c) = "flt"  -> <<"flt", c.f2, c.fk>>
                [] KeyClass(c) = "dt"   -> <<"dt", c.d, "">>
                [] KeyClass(c) = "bool" -> <<"bool", IF c.b THEN 1 ELSE 0, "">>
                [] KeyClass(c) = "str"  -> <<"str", c.ur, "">>

\* the statement fixes two kinds of pairs; equal values whose ladder classes differ ('1' vs '1.0',
\* 'true' vs '1') are left to the implementation
MustShare(a, b) == NormKey(a) = NormKey(b)
MustSplit(a, b) == ~(a.n /\ b.n) /\ (a.n \/ b.n \/ Eq(a, b) # "T")
RowMustShare(r, s) == \A k \in 1..Len(r) : MustShare(r[k], s[k])
RowMustSplit(r, s) == \E k \in 1..Len(r) : MustSplit(r[k], s[k])
Decided(rows) == \A i, j \in 1..Len(rows) : RowMustShare(rows[i], rows[j]) \/ RowMustSplit(rows[i], rows[j])

\* out is a correct list of bucket representatives of the key rows `keys`
BucketsOK(keys, out) ==
  /\ \A i \in 1..Len(keys) : \E j \in 1..Len(out) : ~RowMustSplit(keys[i], out[j])     \* nobody is lost
  /\ \A i, j \in 1..Len(out) : i # j => ~RowMustShare(out[i], out[j])                  \* no bucket is split
  /\ \A j \in 1..Len(out) : \E i \in 1..Len(keys) : RowText(keys[i]) = RowText(out[j]) \* representatives are rows
\* DISTINCT / UNION keep the first row of each bucket, in input order (exact when every pair is decided)
FirstOfBuckets(keys) ==
  LET firsts == SelectSeq([i \in 1..Len(keys) |-> i], LAMBDA i : \A j \in 1..(i - 1) : ~RowMustShare(keys[j], keys[i]))
  IN [k \in 1..Len(firsts) |-> keys[firsts[k]]]
Members(keys, rep) == {i \in 1..Len(keys) : RowMustShare(keys[i], rep)}

\* set operators over key rows
InSome(r, rows) == \E j \in 1..Len(rows) : RowMustShare(r, rows[j])
UnionD(A, B) == FirstOfBuckets(A \o B)
ExceptD(A, B) == FirstOfBuckets(SelectSeq(A, LAMBDA r : ~InSome(r, B)))
IntersectD(A, B) == FirstOfBuckets(SelectSeq(A, LAMBDA r : InSome(r, B)))
ExceptAll(A, B) == SelectSeq(A, LAMBDA r : ~InSome(r, B))
IntersectAll(A, B) == SelectSeq(A, LAMBDA r : InSome(r, B))

-----------------------------------------------------------------------------
(* 4b. Recursive common table expression (C03), as the manual defines it: the base query's rows are the first  *)
(* temporary view; the recursive query is run on the temporary view and its result REPLACES the view, until it  *)
(* is empty; all result sets are combined by UNION [ALL].  Instance: edges e(src, dst) over small integers      *)
(* (-1 = NULL, which joins nothing), rows <<node, depth>>:                                                       *)
(*   base  SELECT dst, 1 FROM e WHERE src = k0       step  SELECT e.dst, r.d + 1 FROM r JOIN e ON e.src = r.n   *)
RecBase(E, k0, d0) == LET m == SelectSeq(E, LAMBDA x : x[1] = k0 /\ x[1] # -1) IN [i \in 1..Len(m) |-> <<m[i][2], d0>>]
RecStep(R, E, inc) == Concat([i \in 1..Len(R) |->
                         LET m == SelectSeq(E, LAMBDA x : x[1] = R[i][1] /\ x[1] # -1) IN [j \in 1..Len(m) |-> <<m[j][2], R[i][2] + inc>>]])
RECURSIVE RecRounds(_, _, _, _)
RecRounds(R, E, inc, fuel) == IF R = <<>> \/ fuel = 0 THEN <<>> ELSE R \o RecRounds(RecStep(R, E, inc), E, inc, fuel - 1)
\* UNION ALL: every row of every round; UNION: each distinct row once
RecResultAll(E, k0, depth) == RecRounds(RecBase(E, k0, IF depth THEN 1 ELSE 0), E, IF depth THEN 1 ELSE 0, 12)

\* aggregates over the cells of one bucket (integers and halves only; NULLs are skipped)
NumCells(cs) == SelectSeq(cs, LAMBDA c : ~c.n /\ c.hasF /\ c.fk = "num")
RECURSIVE Sum2(_)
Sum2(cs) == IF cs = <<>> THEN 0 ELSE Head(cs).f2 + Sum2(Tail(cs))       \* twice the sum
CountNN(cs) == Len(SelectSeq(cs, LAMBDA c : ~c.n))
\* the k-th smallest number (in halves) and four times the median (the mean of the two middle numbers when their count is even)
Kth2(ns, k) == CHOOSE x \in {ns[i].f2 : i \in 1..Len(ns)} :
                 /\ Cardinality({i \in 1..Len(ns) : ns[i].f2 < x}) < k
                 /\ Cardinality({i \in 1..Len(ns) : ns[i].f2 <= x}) >= k
Median4(ns) == LET n == Len(ns) IN IF n % 2 = 1 THEN 2 * Kth2(ns, (n + 1) \div 2) ELSE Kth2(ns, n \div 2) + Kth2(ns, n \div 2 + 1)
Min2(cs) == CHOOSE x \in {NumCells(cs)[i].f2 : i \in 1..Len(NumCells(cs))} : \A i \in 1..Len(NumCells(cs)) : x <= NumCells(cs)[i].f2
Max2(cs) == CHOOSE x \in {NumCells(cs)[i].f2 : i \in 1..Len(NumCells(cs))} : \A i \in 1..Len(NumCells(cs)) : x >= NumCells(cs)[i].f2

-----------------------------------------------------------------------------
(* 5. ORDER BY and cuts (C07)                                                *)
(* key = [i |-> column, desc |-> BOOLEAN, nf |-> BOOLEAN (NULLS FIRST)]; the  *)
(* key columns hold mutually comparable values plus NULLs                     *)

\* "lt" | "eq" | "gt" between two non-null cells of one comparable column
KeyCmp(a, b) == LET r == Compare(a, b) IN IF r = "Lt" THEN "lt" ELSE IF r = "Gt" THEN "gt" ELSE "eq"

\* TRUE iff r must come strictly before s
RECURSIVE PrecedesFrom(_, _, _, _)
PrecedesFrom(r, s, keys, k) ==
  IF k > Len(keys) THEN FALSE
  ELSE LET a == r[keys[k].i]  b == s[keys[k].i] IN
    IF a.n /\ b.n THEN PrecedesFrom(r, s, keys, k + 1)
    ELSE IF a.n THEN keys[k].nf
    ELSE IF b.n THEN ~keys[k].nf
    ELSE LET c == KeyCmp(a, b) IN
      IF c = "eq" THEN PrecedesFrom(r, s, keys, k + 1)
      ELSE IF keys[k].desc THEN c = "gt" ELSE c = "lt"
Precedes(r, s, keys) == PrecedesFrom(r, s, keys, 1)
Tie(r, s, keys) == ~Precedes(r, s, keys) /\ ~Precedes(s, r, keys)

\* out is sorted: no row precedes another that must sort before it
SortedOK(out, keys) == \A i \in 1..Len(out) : \A j \in (i + 1)..Len(out) : ~Precedes(out[j], out[i], keys)

\* how many rows OFFSET m / LIMIT n / LIMIT p PERCENT leave of NN rows (PERCENT of the pre-offset count)
Skip(NN, m) == IF m < 0 THEN 0 ELSE IF m > NN THEN NN ELSE m
CeilDiv(x, y) == (x + y - 1) \div y
LimitCount(NN, lim) == CASE lim.k = "none" -> NN
                        [] lim.k = "n"    -> IF lim.n < 0 THEN 0 ELSE lim.n
                        [] lim.k = "pct"  -> IF lim.n < 0 THEN 0 ELSE IF lim.n > 100 THEN NN ELSE CeilDiv(NN * lim.n, 100)
KeptCount(NN, m, lim) == LET rest == NN - Skip(NN, m) IN IF LimitCount(NN, lim) < rest THEN LimitCount(NN, lim) ELSE rest

\* res (rows with a unique id in column idc) is what ORDER BY keys OFFSET m LIMIT lim may return for input `in`:
\* it is a contiguous window [m+1 .. m+k] of SOME correctly sorted permutation of `in`
Ids(rows, idc) == {rows[i][idc].t : i \in 1..Len(rows)}
WindowOK(in, res, keys, m, lim, ties, idc) ==
  LET NN == Len(in)
      sk == Skip(NN, m)
      base == KeptCount(NN, m, lim)
      k == Len(res)
      out == SelectSeq(in, LAMBDA x : x[idc].t \notin Ids(res, idc))      \* rows not returned
  IN
  /\ Ids(res, idc) \subseteq Ids(in, idc) /\ Cardinality(Ids(res, idc)) = k
  /\ \A i \in 1..k : \E j \in 1..NN : RowText(in[j]) = RowText(res[i])
  /\ SortedOK(res, keys)
  /\ IF ~ties THEN k = base ELSE k >= base
  /\ k = 0 \/
     LET fb == {j \in 1..Len(out) : Precedes(out[j], res[k], keys)}     \* must come before the window
         fa == {j \in 1..Len(out) : Precedes(res[1], out[j], keys)}     \* must come after the window
     IN /\ fb \cap fa = {}
        /\ Cardinality(fb) <= sk
        /\ Cardinality(fa) <= NN - sk - k
  /\ ties =>      \* WITH TIES: the rows added tie with the last kept row, and every row that follows the window
                  \* in the sorted order sorts strictly after the last returned row
        /\ (k > base => base > 0 /\ \A i \in base..k : Tie(res[i], res[base], keys))
        /\ (k > 0 /\ base > 0) => \A j \in 1..Len(out) : Precedes(res[1], out[j], keys) => Precedes(res[k], out[j], keys)
        \* and no row that ties with the last returned row is left out, except rows the OFFSET skipped
        \* (found too weak by RelJudge: <<r1>> was accepted for LIMIT 1 WITH TIES over two equal keys)
        /\ (k > 0 /\ base > 0) =>
              Cardinality({j \in 1..Len(out) : Precedes(out[j], res[k], keys) \/ Tie(out[j], res[k], keys)}) <= sk

-----------------------------------------------------------------------------
(* 6. Analytic functions (C17): per partition, per ordered partition, per frame *)

\* rows of the partition of row r (by MustShare on the partition columns), as indices into rows
PartitionOf(rows, pcols, r) == {i \in 1..Len(rows) : \A k \in 1..Len(pcols) : MustShare(rows[i][pcols[k]], r[pcols[k]])}

\* ord is a sequence of indices: a valid ordering of partition P under keys (rows totally ordered or ties accepted)
ValidOrder(rows, P, ord, keys) ==
  /\ Range(ord) = P /\ Len(ord) = Cardinality(P)
  /\ \A a \in 1..Len(ord) : \A b \in (a + 1)..Len(ord) : ~Precedes(rows[ord[b]], rows[ord[a]], keys)

\* ranking functions at position p (1-based) of ordered partition ord
RankAt(rows, ord, p, keys) == 1 + Cardinality({q \in 1..Len(ord) : Precedes(rows[ord[q]], rows[ord[p]], keys)})
DenseRankAt(rows, ord, p, keys) ==
  1 + Cardinality({q \in 1..Len(ord) : Precedes(rows[ord[q]], rows[ord[p]], keys)
                                        /\ \A q2 \in 1..(q - 1) : ~Tie(rows[ord[q2]], rows[ord[q]], keys)})
\* CUME_DIST = (rows preceding or tying) / n ; PERCENT_RANK = (rank - 1) / (n - 1)
CumeNum(rows, ord, p, keys) == Cardinality({q \in 1..Len(ord) : ~Precedes(rows[ord[p]], rows[ord[q]], keys)})
\* NTILE(t): the first (n mod t) tiles have one row more
NtileAt(n, t, p) == LET q == n \div t  rm == n % t
                        big == rm * (q + 1) IN
                    IF p <= big THEN ((p - 1) \div (q + 1)) + 1 ELSE rm + ((p - big - 1) \div q) + 1

\* frame of position p: lo/hi = [k |-> "ub" (unbounded) | "cur" | "pre" | "fol", n]
Bound(b, p, n, isLo) == CASE b.k = "ub" -> (IF isLo THEN 1 ELSE n) [] b.k = "cur" -> p [] b.k = "pre" -> p - b.n [] b.k = "fol" -> p + b.n
FramePos(p, n, lo, hi) == {q \in 1..n : q >= Bound(lo, p, n, TRUE) /\ q <= Bound(hi, p, n, FALSE)}
FrameCells(rows, ord, p, lo, hi, col) ==
  LET fp == FramePos(p, Len(ord), lo, hi)
      idx == SelectSeq([q \in 1..Len(ord) |-> q], LAMBDA q : q \in fp)
  IN [k \in 1..Len(idx) |-> rows[ord[idx[k]]][col]]
=============================================================================
