-------------------------------- MODULE Txn --------------------------------
(***************************************************************************)
(* One csvq transaction over file tables and a temporary table, statement  *)
(* by statement, with an environment process committing to the same files. *)
(*                                                                         *)
(*   C05  every data-changing statement makes exactly its edit and reports *)
(*        the affected count            (DML operators + out after a step) *)
(*   C08  a failing statement changes nothing               (Fail steps)   *)
(*   C01  COMMIT / ROLLBACK / ways of ending decide what reaches the files *)
(*   C20  reads are stable under concurrent committers; reload on upgrade  *)
(*                                                                         *)
(* A table is [cols, rows]; cells are integers.  `disk` is what is         *)
(* committed in the files, `cache` what the transaction has loaded         *)
(* (file -> [tbl, upd]) and changed, `temp` the temporary table with its   *)
(* restore point.  Every action is one statement and yields `out`.         *)
(***************************************************************************)
EXTENDS Integers, Sequences, FiniteSets, TLC

CONSTANTS Files,      \* file tables that exist initially, e.g. {"f1","f2"}
          NewFile,    \* a table name that does not exist initially (CREATE TABLE)
          SubFile,    \* the file of the first table's name in the sub-directory: sub/f1.csv, or f1.csv while the repository is sub
          TempT,      \* name of the temporary table
          Keys, Vals, \* small integers used in generated statements
          MaxRows,
          Script,     \* TRUE: a failing statement ends the run (csvq -s file); FALSE: interactive (goes on)
          WithEnv     \* TRUE: environment commits are generated

Absent == [cols |-> <<>>, rows |-> <<>>, absent |-> TRUE]
T(c, r) == [cols |-> c, rows |-> r, absent |-> FALSE]
NotLoaded == [tbl |-> Absent, upd |-> FALSE, loaded |-> FALSE]
Loaded(t, u) == [tbl |-> t, upd |-> u, loaded |-> TRUE]

AllFiles == Files \cup {NewFile, SubFile}
Tables == AllFiles \cup {TempT}

VARIABLES disk,    \* [AllFiles -> table]                committed contents
          cache,   \* [AllFiles -> NotLoaded | Loaded]   what this transaction sees of the files
          dirty,   \* SUBSET Tables                      changed since the last COMMIT/ROLLBACK
          created, \* SUBSET AllFiles                    created since the last COMMIT/ROLLBACK
          temp,    \* [cur, rp]                          temporary table and its restore point
          ended,   \* BOOLEAN                            the run is over (script mode)
          envn,    \* Nat                                number of environment commits so far
          enc,     \* SUBSET AllFiles                    loaded files whose encoding attribute was set to Shift_JIS
          cwd,     \* "top" | "sub"                      the directory table names are resolved in (SET @@REPOSITORY)
          out

vars == <<disk, cache, dirty, created, temp, ended, envn, enc, cwd, out>>
ViewNoOut == <<disk, cache, dirty, created, temp, ended, envn, enc, cwd>>

Ok == [k |-> "ok", e |-> "", vals |-> <<>>]
Err(e) == [k |-> "err", e |-> e, vals |-> <<>>]
Val(s) == [k |-> "val", e |-> "", vals |-> s]

RECURSIVE Flat(_)
\* a cell is a small natural number, NULL (-1) or a text that is not a number and that Shift_JIS cannot spell (H)
H == 777
\* ... or a datetime value (D): DATETIME('2012-02-03 00:00:00'), a typed cell until the table is written and loaded again
D == 888
NonNum == {-1, H, D}
CellText(x) == IF x = -1 THEN "NULL" ELSE IF x = H THEN "H" ELSE IF x = D THEN "D" ELSE ToString(x)
Plus(x, n) == IF x \in NonNum THEN -1 ELSE x + n       \* arithmetic on NULL, on a non-numeric text or on a datetime is NULL
Flat(rows) == IF rows = <<>> THEN <<>> ELSE [i \in 1..Len(Head(rows)) |-> CellText(Head(rows)[i])] \o Flat(Tail(rows))
\* what is shown of a table: the column names and the cells, row by row (an empty result shows no header)
Show(t) == IF t.absent THEN <<"ABSENT">> ELSE IF t.rows = <<>> THEN <<"EMPTY">> ELSE t.cols \o Flat(t.rows)

-----------------------------------------------------------------------------
(* Table operators: the definition of each statement (C05)                  *)

ColIdx(t, c) == IF \E i \in 1..Len(t.cols) : t.cols[i] = c THEN CHOOSE i \in 1..Len(t.cols) : t.cols[i] = c ELSE 0
Has(t, c) == ColIdx(t, c) # 0

\* [tbl, n, err]: resulting table, affected count, error class ("" = none)
R(t, n) == [tbl |-> t, n |-> n, err |-> ""]
F(e) == [tbl |-> Absent, n |-> 0, err |-> e]

\* INSERT INTO t VALUES (..),(..): rows appended in the given order; every row must have one value per column
InsertOp(t, rows) ==
  IF \E i \in 1..Len(rows) : Len(rows[i]) # Len(t.cols) THEN F("InsertRowValueLength")
  ELSE R(T(t.cols, t.rows \o rows), Len(rows))

Matching(t, k) == {i \in 1..Len(t.rows) : k = 0 \/ t.rows[i][ColIdx(t, "id")] = k}    \* k = 0: no WHERE clause

\* Field references are resolved row by row while the statement is evaluated: a missing column is an error
\* only if some row gets as far as evaluating it (an empty table never complains).

\* UPDATE t SET v = v + 1 [WHERE id = k]
UpdateOp(t, k) ==
  IF k # 0 /\ ~Has(t, "id") THEN (IF t.rows = <<>> THEN R(t, 0) ELSE F("FieldNotExist"))
  ELSE LET m == Matching(t, k) IN
       IF m = {} THEN R(t, 0)
       ELSE IF ~Has(t, "v") THEN F("FieldNotExist")
       ELSE LET iv == ColIdx(t, "v") IN
            R(T(t.cols, [i \in 1..Len(t.rows) |-> IF i \in m THEN [t.rows[i] EXCEPT ![iv] = Plus(@, 1)] ELSE t.rows[i]]), Cardinality(m))

\* UPDATE t SET id = v, v = id [WHERE id = k] : every assignment reads the row as it was before the statement
UpdateSwapOp(t, k) ==
  IF k # 0 /\ ~Has(t, "id") THEN (IF t.rows = <<>> THEN R(t, 0) ELSE F("FieldNotExist"))
  ELSE LET m == Matching(t, k) IN
       IF m = {} THEN R(t, 0)
       ELSE IF ~Has(t, "v") \/ ~Has(t, "id") THEN F("FieldNotExist")
       ELSE LET iv == ColIdx(t, "v")  ii == ColIdx(t, "id") IN
            R(T(t.cols, [i \in 1..Len(t.rows) |-> IF i \in m THEN [t.rows[i] EXCEPT ![iv] = t.rows[i][ii], ![ii] = t.rows[i][iv]] ELSE t.rows[i]]), Cardinality(m))

\* UPDATE t SET v = CASE WHEN id = k THEN 1 % 0 ELSE v + 1 END : rows are evaluated in order (one worker);
\* the first row that cannot be evaluated decides the error (after the rows before it were processed)
RECURSIVE RowErr(_, _, _)
RowErr(t, k, i) ==
  IF i > Len(t.rows) THEN ""
  ELSE IF ~Has(t, "id") THEN "FieldNotExist"
  ELSE IF t.rows[i][ColIdx(t, "id")] = k THEN "IntegerDividedByZero"
  ELSE IF ~Has(t, "v") THEN "FieldNotExist"
  ELSE RowErr(t, k, i + 1)
UpdateFailOp(t, k) ==
  IF RowErr(t, k, 1) # "" THEN F(RowErr(t, k, 1)) ELSE UpdateOp(t, 0)

\* DELETE FROM t [WHERE id = k]
DeleteOp(t, k) ==
  IF k # 0 /\ ~Has(t, "id") THEN (IF t.rows = <<>> THEN R(t, 0) ELSE F("FieldNotExist"))
  ELSE LET m == Matching(t, k)
           keep == SelectSeq([i \in 1..Len(t.rows) |-> [i |-> i, r |-> t.rows[i]]], LAMBDA x : x.i \notin m) IN
       R(T(t.cols, [j \in 1..Len(keep) |-> keep[j].r]), Cardinality(m))

\* REPLACE INTO t (id, v) USING (id) VALUES (k1, x1), (k2, x2) ...: every existing row whose id equals the id of
\* a given row takes the v of the FIRST such given row; given rows matching nothing are appended in the
\* given order (other columns NULL); affected = rows rewritten + rows appended
ReplaceOp(t, given) ==
  IF ~Has(t, "v") \/ ~Has(t, "id") THEN F("FieldNotExist")
  ELSE LET ii == ColIdx(t, "id")  iv == ColIdx(t, "v")
           hit(i) == {j \in 1..Len(given) : given[j][1] = t.rows[i][ii]}
           first(i) == CHOOSE j \in hit(i) : \A j2 \in hit(i) : j <= j2
           matched == {i \in 1..Len(t.rows) : hit(i) # {}}
           unm == SelectSeq(given, LAMBDA g : \A i \in 1..Len(t.rows) : t.rows[i][ii] # g[1])
           newrow(g) == [c \in 1..Len(t.cols) |-> IF c = ii THEN g[1] ELSE IF c = iv THEN g[2] ELSE -1] IN
       R(T(t.cols, [i \in 1..Len(t.rows) |-> IF i \in matched THEN [t.rows[i] EXCEPT ![iv] = given[first(i)][2]] ELSE t.rows[i]]
                    \o [j \in 1..Len(unm) |-> newrow(unm[j])]),
         Cardinality(matched) + Len(unm))

\* ALTER TABLE t ADD w DEFAULT 7  /  DROP w  /  RENAME v TO u, u TO v
AddColOp(t) == IF Has(t, "w") THEN F("DuplicateFieldName")
               ELSE R(T(Append(t.cols, "w"), [i \in 1..Len(t.rows) |-> Append(t.rows[i], 7)]), 1)
DropColOp(t) == IF ~Has(t, "w") THEN F("FieldNotExist")
               ELSE LET iw == ColIdx(t, "w")
                        cut(s) == [j \in 1..(Len(s) - 1) |-> IF j < iw THEN s[j] ELSE s[j + 1]] IN
                    R(T(cut(t.cols), [i \in 1..Len(t.rows) |-> cut(t.rows[i])]), 1)
RenameOp(t, from, to) == IF Has(t, to) THEN F("DuplicateFieldName")
                         ELSE IF ~Has(t, from) THEN F("FieldNotExist")
                         ELSE R(T([j \in 1..Len(t.cols) |-> IF t.cols[j] = from THEN to ELSE t.cols[j]], t.rows), 1)

\* INSERT INTO t SELECT id + 10, v FROM u : the rows of u, in order, shifted ids (first two columns of u)
InsertSelOp(t, u) ==
  IF u.absent THEN F("FileNotExist")
  ELSE IF (~Has(u, "id") \/ ~Has(u, "v")) /\ u.rows # <<>> THEN F("FieldNotExist")   \* the select list is only evaluated per row
  ELSE IF Len(t.cols) # 2 THEN F("InsertSelectFieldLength")
  ELSE IF u.rows = <<>> THEN R(t, 0)
  ELSE R(T(t.cols, t.rows \o [i \in 1..Len(u.rows) |-> <<Plus(u.rows[i][ColIdx(u, "id")], 10), u.rows[i][ColIdx(u, "v")]>>]), Len(u.rows))

\* INSERT INTO t (id) VALUES (k) : the other columns are NULL
InsertColsOp(t, k) ==
  IF ~Has(t, "id") THEN F("FieldNotExist")
  ELSE R(T(t.cols, Append(t.rows, [j \in 1..Len(t.cols) |-> IF j = ColIdx(t, "id") THEN k ELSE -1])), 1)

\* UPDATE t SET t.v = u.v FROM t JOIN u ON t.id = u.id : a row of t matched by exactly one row of u takes its v;
\* a row matched by several rows of u would be assigned twice: ambiguous update (error, nothing changes)
UpdateJoinOp(t, u) ==
  IF u.absent THEN F("FileNotExist")
  ELSE IF ~Has(t, "id") \/ ~Has(u, "id") THEN (IF t.rows = <<>> \/ u.rows = <<>> THEN R(t, 0) ELSE F("FieldNotExist"))
  ELSE LET ti == ColIdx(t, "id")  ui == ColIdx(u, "id")
           part(i) == {j \in 1..Len(u.rows) : u.rows[j][ui] = t.rows[i][ti] /\ t.rows[i][ti] # -1}
           matched == {i \in 1..Len(t.rows) : part(i) # {}} IN
       IF matched = {} THEN R(t, 0)
       ELSE IF ~Has(t, "v") \/ ~Has(u, "v") THEN F("FieldNotExist")
       ELSE LET tv == ColIdx(t, "v")  uv == ColIdx(u, "v") IN
            IF \E i \in matched : Cardinality(part(i)) > 1 THEN F("UpdateValueAmbiguous")
            ELSE R(T(t.cols, [i \in 1..Len(t.rows) |-> IF i \in matched THEN [t.rows[i] EXCEPT ![tv] = u.rows[CHOOSE j \in part(i) : TRUE][uv]] ELSE t.rows[i]]),
                   Cardinality(matched))

\* DELETE tx FROM u ux JOIN t tx ON tx.id = ux.id : the rows of t (the SECOND table of the join) that have a partner in u go,
\* each once however many partners it has; the count is the number of rows of t deleted
DeleteJoinOp(t, u) ==
  IF u.absent THEN F("FileNotExist")
  ELSE IF ~Has(t, "id") \/ ~Has(u, "id") THEN (IF t.rows = <<>> \/ u.rows = <<>> THEN R(t, 0) ELSE F("FieldNotExist"))
  ELSE LET ti == ColIdx(t, "id")  ui == ColIdx(u, "id")
           gone == {i \in 1..Len(t.rows) : t.rows[i][ti] # -1 /\ \E j \in 1..Len(u.rows) : u.rows[j][ui] = t.rows[i][ti]}
           keep == SelectSeq([i \in 1..Len(t.rows) |-> [i |-> i, r |-> t.rows[i]]], LAMBDA x : x.i \notin gone) IN
       R(T(t.cols, [j \in 1..Len(keep) |-> keep[j].r]), Cardinality(gone))

\* ALTER TABLE t ADD x DEFAULT id FIRST : a new first column holding the id of its row
AddFirstOp(t) == IF Has(t, "x") THEN F("DuplicateFieldName")
                 ELSE IF ~Has(t, "id") THEN (IF t.rows = <<>> THEN R(T(<<"x">> \o t.cols, <<>>), 1) ELSE F("FieldNotExist"))
                 ELSE R(T(<<"x">> \o t.cols, [i \in 1..Len(t.rows) |-> <<t.rows[i][ColIdx(t, "id")]>> \o t.rows[i]]), 1)
\* ALTER TABLE t ADD y DEFAULT CASE WHEN id = k THEN 1 % 0 ELSE 7 END : fails at the row with id = k
AddFailOp(t, k) == IF Has(t, "y") THEN F("DuplicateFieldName")
                   ELSE IF t.rows = <<>> THEN R(T(Append(t.cols, "y"), <<>>), 1)
                   ELSE IF ~Has(t, "id") THEN F("FieldNotExist")
                   ELSE IF \E i \in 1..Len(t.rows) : t.rows[i][ColIdx(t, "id")] = k THEN F("IntegerDividedByZero")
                   ELSE R(T(Append(t.cols, "y"), [i \in 1..Len(t.rows) |-> Append(t.rows[i], 7)]), 1)

\* DELETE FROM t WHERE v = DATETIME('2012-02-03 00:00:00') : the rows whose v is that datetime - as a value or as its text
DeleteDOp(t) ==
  IF ~Has(t, "v") THEN (IF t.rows = <<>> THEN R(t, 0) ELSE F("FieldNotExist"))
  ELSE LET iv == ColIdx(t, "v")
           gone == {i \in 1..Len(t.rows) : t.rows[i][iv] = D}
           keep == SelectSeq([i \in 1..Len(t.rows) |-> [i |-> i, r |-> t.rows[i]]], LAMBDA x : x.i \notin gone) IN
       R(T(t.cols, [j \in 1..Len(keep) |-> keep[j].r]), Cardinality(gone))

\* INSERT INTO t VALUES (k, (SELECT v FROM u LIMIT 1)) [, (k + 1)] : the scalar sub-query is the v of the first row of u
\* (NULL when u has no rows); with the second, too short, row nothing is inserted.  Rows are evaluated in order, each
\* checked for its length after its values are known.
InsertSubOp(t, u, k, bad) ==
  IF u.absent THEN F("FileNotExist")
  ELSE IF u.rows # <<>> /\ ~Has(u, "v") THEN F("FieldNotExist")
  ELSE IF bad THEN F("InsertRowValueLength")
  ELSE InsertOp(t, <<<<k, IF u.rows = <<>> THEN -1 ELSE u.rows[1][ColIdx(u, "v")]>>>>)

\* the frame condition of C05: a successful statement changes nothing but what it names
SameShapeUnlessAlter(t, t2) == t2.cols = t.cols

-----------------------------------------------------------------------------
(* The transaction                                                          *)

Init ==
  /\ disk = [f \in AllFiles |-> IF f \in Files THEN T(<<"id", "v">>, <<<<1, 1>>, <<2, 2>>>>)
                              ELSE IF f = SubFile THEN T(<<"id", "v">>, <<<<1, 4>>, <<3, 3>>>>) ELSE Absent]
  /\ cache = [f \in AllFiles |-> NotLoaded]
  /\ dirty = {} /\ created = {}
  /\ temp = [cur |-> T(<<"id", "v">>, <<>>), rp |-> T(<<"id", "v">>, <<>>)]
  /\ ended = FALSE /\ envn = 0 /\ enc = {} /\ cwd = "top"
  /\ out = Ok

HeldU == {f \in AllFiles : cache[f].loaded /\ cache[f].upd}

\* what a table looks like to the transaction; loads a file table on first access (for == for update)
Seen(t) == IF t = TempT THEN temp.cur ELSE IF cache[t].loaded THEN cache[t].tbl ELSE disk[t]

\* SELECT * FROM t
Select(t) ==
  /\ IF t # TempT /\ Seen(t).absent
       THEN out' = Err("FileNotExist") /\ ended' = Script /\ UNCHANGED cache
       ELSE /\ out' = Val(Show(Seen(t)))
            /\ cache' = IF t # TempT /\ ~cache[t].loaded THEN [cache EXCEPT ![t] = Loaded(disk[t], FALSE)] ELSE cache
            /\ UNCHANGED ended
  /\ UNCHANGED <<disk, dirty, created, temp, envn, enc>>

\* SELECT * FROM (SELECT * FROM t) s  /  SELECT COUNT(*), SUM(v) FROM t : the same table as the transaction sees it
SelectSub(t) == Select(t)
RECURSIVE SumCol(_, _)
SumCol(rows, i) == IF rows = <<>> THEN 0 ELSE (IF Head(rows)[i] \in NonNum THEN 0 ELSE Head(rows)[i]) + SumCol(Tail(rows), i)
SelectAgg(t) ==
  /\ IF t # TempT /\ Seen(t).absent
       THEN out' = Err("FileNotExist") /\ ended' = Script /\ UNCHANGED cache
       ELSE IF ~Has(Seen(t), "v") /\ Seen(t).rows # <<>>
       THEN /\ out' = Err("FieldNotExist") /\ ended' = Script
            /\ cache' = IF t # TempT /\ ~cache[t].loaded THEN [cache EXCEPT ![t] = Loaded(disk[t], FALSE)] ELSE cache
       ELSE /\ out' = Val(<<ToString(Len(Seen(t).rows)),
                            IF Seen(t).rows = <<>> \/ \A i \in 1..Len(Seen(t).rows) : Seen(t).rows[i][ColIdx(Seen(t), "v")] \in NonNum THEN "NULL"
                            ELSE ToString(SumCol(Seen(t).rows, ColIdx(Seen(t), "v")))>>)
            /\ cache' = IF t # TempT /\ ~cache[t].loaded THEN [cache EXCEPT ![t] = Loaded(disk[t], FALSE)] ELSE cache
            /\ UNCHANGED ended
  /\ UNCHANGED <<disk, dirty, created, temp, envn, enc>>

\* the table a data-changing statement works on: a file loaded by a plain SELECT is loaded again, under
\* an exclusive lock (the documented exception of C20)
ForUpdate(t) == IF t = TempT THEN temp.cur ELSE IF cache[t].loaded /\ cache[t].upd THEN cache[t].tbl ELSE disk[t]

\* generic data-changing statement with result r = Op(ForUpdate(t), ...); alter: marks dirty even with count 0;
\* ro / fu: other file tables the statement reads (loaded read-only if not yet loaded) or names in the FROM
\* clause of an UPDATE (loaded - or re-loaded - for update and held, although not changed)
CacheAfter(t, newT, ro, fu) ==
  [f \in AllFiles |->
     IF f = t THEN newT
     ELSE IF f \in fu THEN Loaded(ForUpdate(f), TRUE)
     ELSE IF f \in ro /\ ~cache[f].loaded THEN Loaded(disk[f], FALSE)
     ELSE cache[f]]
DmlR(t, r, alter, ro, fu) ==
  IF t # TempT /\ ForUpdate(t).absent
    THEN /\ out' = Err("FileNotExist")
         /\ ended' = Script
         /\ UNCHANGED <<disk, cache, dirty, created, temp, envn, enc>>
  ELSE IF r.err = "FileNotExist"
    THEN /\ out' = Err("FileNotExist") /\ ended' = Script
         /\ cache' = IF t = TempT THEN cache ELSE [cache EXCEPT ![t] = Loaded(ForUpdate(t), TRUE)]
         /\ UNCHANGED <<disk, dirty, created, temp, envn, enc>>
  ELSE IF r.err # ""
    THEN \* C08: nothing changes - except that the tables are now loaded (the target held for update)
         /\ out' = Err(r.err)
         /\ cache' = IF t = TempT THEN CacheAfter("", NotLoaded, ro, fu) ELSE CacheAfter(t, Loaded(ForUpdate(t), TRUE), ro, fu)
         /\ ended' = Script
         /\ UNCHANGED <<disk, dirty, created, temp, envn, enc>>
  ELSE /\ out' = Val(<<ToString(r.n)>>)
       /\ IF t = TempT THEN temp' = [temp EXCEPT !.cur = r.tbl] /\ cache' = CacheAfter("", NotLoaded, ro, fu)
                       ELSE cache' = CacheAfter(t, Loaded(r.tbl, TRUE), ro, fu) /\ UNCHANGED temp
       /\ dirty' = IF r.n > 0 \/ alter THEN dirty \cup {t} ELSE dirty
       /\ UNCHANGED <<disk, created, ended, envn, enc>>
Dml(t, r, alter) == DmlR(t, r, alter, {}, {})

RowsOk(t, n) == Len(ForUpdate(t).rows) + n <= MaxRows

Insert1(t, k, x) == RowsOk(t, 1) /\ Dml(t, InsertOp(ForUpdate(t), <<<<k, x>>>>), FALSE)
Insert2(t, k, x) == RowsOk(t, 2) /\ Dml(t, InsertOp(ForUpdate(t), <<<<k, x>>, <<k + 1, x>>>>), FALSE)
InsertBad(t)     == Dml(t, InsertOp(ForUpdate(t), <<<<1, 1, 1, 1>>>>), FALSE)
Update(t, k)     == Dml(t, UpdateOp(ForUpdate(t), k), FALSE)
UpdateFail(t, k) == Dml(t, UpdateFailOp(ForUpdate(t), k), FALSE)
Delete(t, k)     == Dml(t, DeleteOp(ForUpdate(t), k), FALSE)
Replace(t, k, x) == RowsOk(t, 1) /\ Dml(t, ReplaceOp(ForUpdate(t), <<<<k, x>>>>), FALSE)
\* three given rows: the last key first, so that "given order" differs from key order
Replace3(t, k, x) == RowsOk(t, 3) /\ Dml(t, ReplaceOp(ForUpdate(t), <<<<k + 2, x>>, <<k, x + 1>>, <<k + 1, x>>>>), FALSE)
\* two given rows with one key: the row of that key (if there is one) is rewritten, once, and neither given row is appended;
\* without such a row both are appended, in the given order
ReplaceDup(t, k, x) == RowsOk(t, 2) /\ Dml(t, ReplaceOp(ForUpdate(t), <<<<k, x>>, <<k, x + 1>>>>), FALSE)
InsertSel(t, u)  == RowsOk(t, Len(Seen(u).rows)) /\ DmlR(t, InsertSelOp(ForUpdate(t), IF u = t THEN ForUpdate(t) ELSE Seen(u)), FALSE, {u} \ {t, TempT}, {})
InsertCols(t, k) == RowsOk(t, 1) /\ Dml(t, InsertColsOp(ForUpdate(t), k), FALSE)
\* INSERT INTO t (id, id) VALUES (k, k + 1) : a column cannot receive two values; nothing is inserted
InsertDup(t, k)  == Dml(t, IF Has(ForUpdate(t), "id") THEN F("DuplicateFieldName") ELSE F("FieldNotExist"), FALSE)
\* INSERT INTO t VALUES (k, 1), (k + 1) : the second row is too short; nothing is inserted
InsertBad2(t, k) == Dml(t, InsertOp(ForUpdate(t), <<<<k, 1>>, <<k + 1>>>>), FALSE)
UpdateJoin(t, u) == u # t /\ DmlR(t, UpdateJoinOp(ForUpdate(t), IF u = TempT THEN temp.cur ELSE ForUpdate(u)), FALSE, {}, {u} \ {TempT})
\* (the tables of the FROM clause are loaded in the order written: u is loaded - for update, and stays held - before t is missed)
DeleteJoin(t, u) ==
  /\ u # t
  /\ IF t # TempT /\ ForUpdate(t).absent /\ u # TempT
       THEN /\ out' = Err("FileNotExist") /\ ended' = Script
            /\ cache' = [cache EXCEPT ![u] = Loaded(ForUpdate(u), TRUE)]
            /\ UNCHANGED <<disk, dirty, created, temp, envn, enc>>
       ELSE DmlR(t, DeleteJoinOp(ForUpdate(t), IF u = TempT THEN temp.cur ELSE ForUpdate(u)), FALSE, {}, {u} \ {TempT})
\* UPDATE tx, ux SET tx.v = tx.v + 1, ux.v = CASE WHEN ux.id = k THEN 1 % 0 ELSE ux.v + 1 END FROM t tx JOIN u ux ON tx.id = ux.id
\* one statement updating two tables: both change or - when the SET item of the second fails - neither does.
\* (generated only where ids are unique in both tables, so that no row has two partners: the ambiguity rules are UpdateJoin's)
UniqueIds(tb) == Has(tb, "id") /\ Has(tb, "v") /\
                 \A i, j \in 1..Len(tb.rows) : (i # j /\ tb.rows[i][ColIdx(tb, "id")] # -1) => tb.rows[i][ColIdx(tb, "id")] # tb.rows[j][ColIdx(tb, "id")]
UpdateTwo(t, u, k) ==
  LET tT == ForUpdate(t)  uT == ForUpdate(u) IN
  /\ t # u /\ t # TempT /\ u # TempT /\ ~tT.absent /\ ~uT.absent
  /\ UniqueIds(tT) /\ UniqueIds(uT)
  /\ LET ti == ColIdx(tT, "id")  tv == ColIdx(tT, "v")  ui == ColIdx(uT, "id")  uv == ColIdx(uT, "v")
         mt == {i \in 1..Len(tT.rows) : tT.rows[i][ti] # -1 /\ \E j \in 1..Len(uT.rows) : uT.rows[j][ui] = tT.rows[i][ti]}
         mu == {j \in 1..Len(uT.rows) : uT.rows[j][ui] # -1 /\ \E i \in 1..Len(tT.rows) : tT.rows[i][ti] = uT.rows[j][ui]}
         fails == \E j \in mu : uT.rows[j][ui] = k
         t2 == T(tT.cols, [i \in 1..Len(tT.rows) |-> IF i \in mt THEN [tT.rows[i] EXCEPT ![tv] = Plus(@, 1)] ELSE tT.rows[i]])
         u2 == T(uT.cols, [j \in 1..Len(uT.rows) |-> IF j \in mu THEN [uT.rows[j] EXCEPT ![uv] = Plus(@, 1)] ELSE uT.rows[j]])
     IN IF fails
          THEN /\ out' = Err("IntegerDividedByZero") /\ ended' = Script
               /\ cache' = [cache EXCEPT ![t] = Loaded(tT, TRUE), ![u] = Loaded(uT, TRUE)]
               /\ UNCHANGED <<disk, dirty, created, temp, envn, enc>>
          ELSE /\ out' = Val(<<ToString(Cardinality(mt))>>)
               /\ cache' = [cache EXCEPT ![t] = Loaded(t2, TRUE), ![u] = Loaded(u2, TRUE)]
               /\ dirty' = IF mt = {} THEN dirty ELSE dirty \cup {t, u}
               /\ UNCHANGED <<disk, created, temp, ended, envn, enc>>
\* DELETE ux, tx FROM t tx LEFT JOIN u ux ON tx.id = ux.id WHERE tx.id = k : one statement deleting from two tables; the rows
\* of t with id = k go, and the rows of u they are joined with; each table reports its own count (the first-named target may
\* well have none), and each table with a deleted row belongs to the transaction's changes
DeleteTwo(t, u, k) ==
  LET tT == ForUpdate(t)  uT == ForUpdate(u) IN
  /\ t # u /\ t # TempT /\ u # TempT /\ ~tT.absent /\ ~uT.absent
  /\ Has(tT, "id") /\ Has(uT, "id")
  /\ LET ti == ColIdx(tT, "id")  ui == ColIdx(uT, "id")
         mt == {i \in 1..Len(tT.rows) : tT.rows[i][ti] = k}
         mu == IF mt = {} THEN {} ELSE {j \in 1..Len(uT.rows) : uT.rows[j][ui] = k}
         t2 == T(tT.cols, SelectSeq(tT.rows, LAMBDA r : r[ti] # k))
         u2 == IF mt = {} THEN uT ELSE T(uT.cols, SelectSeq(uT.rows, LAMBDA r : r[ui] # k))
     IN /\ out' = Val(<<ToString(Cardinality(mt)), ToString(Cardinality(mu))>>)
        /\ cache' = [cache EXCEPT ![t] = Loaded(t2, TRUE), ![u] = Loaded(u2, TRUE)]
        /\ dirty' = dirty \cup (IF mt = {} THEN {} ELSE {t}) \cup (IF mu = {} THEN {} ELSE {u})
        /\ UNCHANGED <<disk, created, temp, ended, envn, enc>>
AddFirst(t)      == Dml(t, AddFirstOp(ForUpdate(t)), TRUE)
AddFail(t, k)    == Dml(t, AddFailOp(ForUpdate(t), k), TRUE)
AddCol(t)        == Dml(t, AddColOp(ForUpdate(t)), TRUE)
DropCol(t)       == Dml(t, DropColOp(ForUpdate(t)), TRUE)
Rename(t, a, b)  == Dml(t, RenameOp(ForUpdate(t), a, b), TRUE)

UpdateSwap(t, k) == Dml(t, UpdateSwapOp(ForUpdate(t), k), FALSE)
\* INSERT INTO t VALUES (k, 'H')
InsertH(t, k)    == RowsOk(t, 1) /\ Dml(t, InsertOp(ForUpdate(t), <<<<k, H>>>>), FALSE)

\* INSERT INTO t VALUES (k, DATETIME('2012-02-03 00:00:00'))
InsertD(t, k)    == RowsOk(t, 1) /\ Dml(t, InsertOp(ForUpdate(t), <<<<k, D>>>>), FALSE)
DeleteD(t)       == Dml(t, DeleteDOp(ForUpdate(t)), FALSE)
InsertSub(t, u, k, bad) == RowsOk(t, 1) /\ DmlR(t, InsertSubOp(ForUpdate(t), IF u = t THEN ForUpdate(t) ELSE Seen(u), k, bad), FALSE, {u} \ {t, TempT}, {})
\* SELECT COUNT(*) FROM t WHERE v <= DATETIME('2012-02-03 00:00:00') : a read that compares every v with a datetime
SelectD(t) ==
  /\ IF t # TempT /\ Seen(t).absent
       THEN out' = Err("FileNotExist") /\ ended' = Script /\ UNCHANGED cache
       ELSE /\ IF ~Has(Seen(t), "v") /\ Seen(t).rows # <<>>
                 THEN out' = Err("FieldNotExist") /\ ended' = Script
                 ELSE out' = Val(<<ToString(Cardinality({i \in 1..Len(Seen(t).rows) : Seen(t).rows[i][ColIdx(Seen(t), "v")] = D}))>>) /\ UNCHANGED ended
            /\ cache' = IF t # TempT /\ ~cache[t].loaded THEN [cache EXCEPT ![t] = Loaded(disk[t], FALSE)] ELSE cache
  /\ UNCHANGED <<disk, dirty, created, temp, envn, enc>>

\* SELECT * FROM CSV(',', `t.csv`, 'UTF8') : the table function names the same file, hence the same loaded table
SelectFn(t) == t # TempT /\ Select(t)

\* the same file under another spelling of its path (./t.csv, the absolute path, with /./ or /sub/../ inside): one table
SelectPath(t) == t # TempT /\ Select(t)
InsertPath(t, k) == t # TempT /\ Insert1(t, k, 1)

\* SELECT * FROM CSV_INLINE(',', `t.csv`) : the file itself, read now, as an inline table - not the table the transaction
\* has loaded: it shows what is committed (whatever the transaction changed and has not committed yet, and whatever
\* other processes committed since the table was loaded), it loads nothing and it holds nothing afterwards.
\* (a table created and not yet committed is a placeholder file: not generated)
SelectInline(t) ==
  /\ t # TempT /\ t \notin created
  /\ IF disk[t].absent THEN out' = Err("FileNotExist") /\ ended' = Script
                       ELSE out' = Val(Show(disk[t])) /\ UNCHANGED ended
  /\ UNCHANGED <<disk, cache, dirty, created, temp, envn, enc>>

\* SELECT * FROM `F1.csv` where only f1.csv exists: file names are what the file system says they are - on a file system that
\* tells letter cases apart there is no such table, whatever the transaction has loaded under the other spelling
SelectCase(t) ==
  /\ t \in Files /\ cwd = "top"
  /\ out' = Err("FileNotExist") /\ ended' = Script
  /\ UNCHANGED <<disk, cache, dirty, created, temp, envn, enc>>

\* ALTER TABLE t SET ENCODING TO SJIS : a table attribute; the table is loaded for update and counts as changed
\* (it has to be written in the new encoding), its rows stay; setting the value it already has does nothing
SetEnc(t) ==
  IF t = TempT
    THEN out' = Err("NotTable") /\ ended' = Script /\ UNCHANGED <<disk, cache, dirty, created, temp, envn, enc>>
  ELSE IF ForUpdate(t).absent
    THEN out' = Err("FileNotExist") /\ ended' = Script /\ UNCHANGED <<disk, cache, dirty, created, temp, envn, enc>>
  ELSE /\ out' = Ok
       /\ cache' = [cache EXCEPT ![t] = Loaded(ForUpdate(t), TRUE)]
       /\ enc' = enc \cup {t}
       /\ dirty' = IF t \in enc THEN dirty ELSE dirty \cup {t}
       /\ UNCHANGED <<disk, created, temp, ended, envn>>

\* CREATE TABLE NewFile (..) AS SELECT .. FROM u, k = 0: (id, v) AS SELECT id, v           - the rows of u
\*                                              k = 1: (id) AS SELECT id, v               - wrong number of names
\*                                              k = 2: (id, id) AS SELECT id, v           - duplicate names
\*                                              k = 3: (id, v) AS SELECT id, 1 % 0        - query fails on the first row
\* a failing CREATE leaves no file and no lock behind: the same name can be created afterwards
CreateAs(u, k) ==
  LET src == Seen(u)
      load == IF u # TempT /\ ~cache[u].loaded THEN [cache EXCEPT ![u] = Loaded(disk[u], FALSE)] ELSE cache
      fail(e, c) == out' = Err(e) /\ ended' = Script /\ cache' = c /\ UNCHANGED created IN
  /\ u # NewFile
  /\ IF ~disk[NewFile].absent \/ NewFile \in created THEN fail("FileAlreadyExist", cache)
     ELSE IF src.absent THEN fail("FileNotExist", cache)
     ELSE IF src.rows # <<>> /\ ~Has(src, "id") THEN fail("FieldNotExist", load)
     ELSE IF src.rows # <<>> /\ k = 3 THEN fail("IntegerDividedByZero", load)
     ELSE IF src.rows # <<>> /\ k # 3 /\ ~Has(src, "v") THEN fail("FieldNotExist", load)
     ELSE IF k = 1 THEN fail("TableFieldLength", load)
     ELSE IF k = 2 THEN fail("DuplicateFieldName", load)
     ELSE /\ out' = Ok
          /\ cache' = [load EXCEPT ![NewFile] = Loaded(T(<<"id", "v">>, [i \in 1..Len(src.rows) |-> <<src.rows[i][ColIdx(src, "id")], src.rows[i][ColIdx(src, "v")]>>]), TRUE)]
          /\ created' = created \cup {NewFile}
          /\ UNCHANGED ended
  /\ UNCHANGED <<disk, dirty, temp, envn, enc>>

\* @z := noop() : a user-defined function whose body runs off its end (no RETURN) changes nothing - in particular it is
\* not a transaction boundary; @z := ins_t(k) : the function's body inserts (k, 1) into t, like the statement itself
CallNoop == out' = Ok /\ UNCHANGED <<disk, cache, dirty, created, temp, ended, envn, enc>>
\* statements that execute statements - EXECUTE '..', SOURCE `file`, EXECUTE of a prepared statement - are no transaction
\* boundary either: whatever they run belongs to the transaction they are in (here: an assignment to a variable)
NestExec == CallNoop
CallIns(t, k) == Insert1(t, k, 1)

\* CREATE TABLE NewFile (id, v)
Create ==
  /\ IF ~disk[NewFile].absent \/ NewFile \in created
       THEN out' = Err("FileAlreadyExist") /\ ended' = Script /\ UNCHANGED <<cache, created>>
       ELSE /\ out' = Ok
            /\ cache' = [cache EXCEPT ![NewFile] = Loaded(T(<<"id", "v">>, <<>>), TRUE)]
            /\ created' = created \cup {NewFile}
            /\ UNCHANGED ended
  /\ UNCHANGED <<disk, dirty, temp, envn, enc>>

\* CREATE TABLE IF NOT EXISTS t (id, v) | (id) | (id, zz): a table that does not exist is created with these columns; one that
\* exists (on disk, or created by this transaction) is loaded - read-only, if it was not loaded - and its columns are compared
\* with the definition: another number of columns or an unknown name is an error, and that is all: the table, what the
\* transaction has changed in it and the hold on it stay as they were
CINCols(k) == CASE k = 0 -> <<"id", "v">> [] k = 1 -> <<"id">> [] OTHER -> <<"id", "zz">>
CreateIfNot(t, k) ==
  /\ t # TempT
  /\ IF Seen(t).absent
       THEN /\ out' = Ok
            /\ cache' = [cache EXCEPT ![t] = Loaded(T(CINCols(k), <<>>), TRUE)]
            /\ created' = created \cup {t}
            /\ UNCHANGED ended
       ELSE LET cols == Seen(t).cols
                ld == IF ~cache[t].loaded THEN [cache EXCEPT ![t] = Loaded(disk[t], FALSE)] ELSE cache IN
            /\ cache' = ld /\ UNCHANGED created
            /\ IF Len(cols) # Len(CINCols(k)) THEN out' = Err("FieldLengthNotMatch") /\ ended' = Script
               ELSE IF \E i \in 1..Len(CINCols(k)) : ~Has(Seen(t), CINCols(k)[i]) THEN out' = Err("FieldNotExist") /\ ended' = Script
               ELSE out' = Ok /\ UNCHANGED ended
  /\ UNCHANGED <<disk, dirty, temp, envn, enc>>

\* COMMIT: every created or changed table reaches its file; the temporary table gets a new restore point.
\* All files are encoded before the first one is replaced: if one of them cannot be encoded (a text that the
\* table's encoding cannot spell) the COMMIT fails and nothing at all has happened.
HasH(t) == \E i \in 1..Len(t.rows) : \E j \in 1..Len(t.rows[i]) : t.rows[i][j] = H
Unencodable == {f \in (dirty \cup created) \cap AllFiles : cache[f].loaded /\ f \in enc /\ HasH(cache[f].tbl)}
Commit ==
  IF Unencodable # {}
    THEN out' = Err("Commit") /\ ended' = Script /\ UNCHANGED <<disk, cache, dirty, created, temp, envn, enc>>
    ELSE /\ disk' = [f \in AllFiles |-> IF f \in dirty \cup created /\ cache[f].loaded THEN cache[f].tbl ELSE disk[f]]
         /\ temp' = IF TempT \in dirty THEN [temp EXCEPT !.rp = temp.cur] ELSE temp
         /\ cache' = [f \in AllFiles |-> NotLoaded]
         /\ dirty' = {} /\ created' = {} /\ enc' = {}
         /\ out' = Ok
         /\ UNCHANGED <<ended, envn>>

\* ROLLBACK: as at the last COMMIT
Rollback ==
  /\ temp' = IF TempT \in dirty THEN [temp EXCEPT !.cur = temp.rp] ELSE temp
  /\ cache' = [f \in AllFiles |-> NotLoaded]
  /\ dirty' = {} /\ created' = {} /\ enc' = {}
  /\ out' = Ok
  /\ UNCHANGED <<disk, ended, envn>>

\* another csvq process appends a row to f and commits - possible only while we do not hold f for update
EnvCommit(f) ==
  /\ WithEnv /\ ~disk[f].absent /\ Len(disk[f].rows) < MaxRows + 2
  /\ IF f \in HeldU
       THEN out' = Err("LockTimeout") /\ UNCHANGED <<disk, envn>>
       ELSE /\ disk' = [disk EXCEPT ![f] = T(@.cols, Append(@.rows, [j \in 1..Len(@.cols) |-> 90 + envn]))]
            /\ envn' = envn + 1
            /\ out' = Ok
  /\ UNCHANGED <<cache, dirty, created, temp, ended, enc>>

\* the harness reads the file itself (no csvq involved)
\* (a table created and not yet committed is a locked file whose contents are unspecified: a placeholder, or what a
\* COMMIT that failed later had already written into it)
Disk(f) == out' = (IF f \in created THEN Val(<<"CREATED">>) ELSE Val(Show(disk[f]))) /\ UNCHANGED <<disk, cache, dirty, created, temp, ended, envn, enc>>

-----------------------------------------------------------------------------
\* Table names are resolved when the statement runs, in the repository of that moment: after SET @@REPOSITORY TO '<sub>'
\* the name f1 means the file sub/f1.csv (SubFile) - a table of its own, whatever the transaction has loaded under that name
\* before; from the top directory the same file is `sub/f1.csv`.  In the sub-directory only f1 and the temporary table have names.
Res(t) == IF cwd = "sub" /\ t = "f1" THEN SubFile ELSE t
Sayable(a) ==
  IF cwd = "top" THEN TRUE
  ELSE \/ a.act \in {"env", "disk", "commit", "rollback", "chdir", "callnoop", "nestexec", "nestsource", "nestprep"}
       \/ /\ a.t \in {"f1", TempT, ""} /\ a.u \in {"f1", TempT, ""}
          /\ a.act \notin {"create", "createas", "createifnot", "selectpath", "insertpath"}
Chdir(k) == cwd' = (IF k = 1 THEN "sub" ELSE "top") /\ out' = Ok /\ UNCHANGED <<disk, cache, dirty, created, temp, ended, envn, enc>>

DoRes(a) ==
  /\ CASE a.act = "select"   -> Select(a.t)
       [] a.act = "insert1"  -> Insert1(a.t, a.k, a.x)
       [] a.act = "insert2"  -> Insert2(a.t, a.k, a.x)
       [] a.act = "insertbad"-> InsertBad(a.t)
       [] a.act = "update"   -> Update(a.t, a.k)
       [] a.act = "updatefail" -> UpdateFail(a.t, a.k)
       [] a.act = "delete"   -> Delete(a.t, a.k)
       [] a.act = "replace"  -> Replace(a.t, a.k, a.x)
       [] a.act = "replace3" -> Replace3(a.t, a.k, a.x)
       [] a.act = "replacedup" -> ReplaceDup(a.t, a.k, a.x)
       [] a.act = "addcol"   -> AddCol(a.t)
       [] a.act = "dropcol"  -> DropCol(a.t)
       [] a.act = "renamevu" -> Rename(a.t, "v", "u")
       [] a.act = "renameuv" -> Rename(a.t, "u", "v")
       [] a.act = "selectsub" -> SelectSub(a.t)
       [] a.act = "selectagg" -> SelectAgg(a.t)
       [] a.act = "insertsel" -> InsertSel(a.t, a.u)
       [] a.act = "insertcols" -> InsertCols(a.t, a.k)
       [] a.act = "insertbad2" -> InsertBad2(a.t, a.k)
       [] a.act = "insertdup" -> InsertDup(a.t, a.k)
       [] a.act = "updatejoin" -> UpdateJoin(a.t, a.u)
       [] a.act = "deletejoin" -> DeleteJoin(a.t, a.u)
       [] a.act = "updatetwo" -> UpdateTwo(a.t, a.u, a.k)
       [] a.act = "deletetwo" -> DeleteTwo(a.t, a.u, a.k)
       [] a.act = "addfirst" -> AddFirst(a.t)
       [] a.act = "addfail"  -> AddFail(a.t, a.k)
       [] a.act = "updateswap" -> UpdateSwap(a.t, a.k)
       [] a.act = "inserth"  -> InsertH(a.t, a.k)
       [] a.act = "selectfn" -> SelectFn(a.t)
       [] a.act = "selectinline" -> SelectInline(a.t)
       [] a.act = "selectcase" -> SelectCase(a.t)
       [] a.act = "insertd"  -> InsertD(a.t, a.k)
       [] a.act = "deleted"  -> DeleteD(a.t)
       [] a.act = "selectd"  -> SelectD(a.t)
       [] a.act = "insertsub" -> InsertSub(a.t, a.u, a.k, a.x = 1)
       [] a.act = "setenc"   -> SetEnc(a.t)
       [] a.act = "selectpath" -> SelectPath(a.t)
       [] a.act = "insertpath" -> InsertPath(a.t, a.k)
       [] a.act = "createas" -> CreateAs(a.u, a.k)
       [] a.act = "callnoop" -> CallNoop
       [] a.act \in {"nestexec", "nestsource", "nestprep"} -> NestExec
       [] a.act = "callins"  -> CallIns(a.t, a.k)
       [] a.act = "create"   -> Create
       [] a.act = "createifnot" -> CreateIfNot(a.t, a.k)
       [] a.act = "commit"   -> Commit
       [] a.act = "rollback" -> Rollback
       [] a.act = "env"      -> EnvCommit(a.t)
       [] a.act = "disk"     -> Disk(a.t)

Do(a) ==
  /\ ~ended
  /\ Sayable(a)
  /\ IF a.act = "chdir" THEN Chdir(a.k)
     ELSE /\ DoRes(IF a.act \in {"env", "disk"} THEN a ELSE [a EXCEPT !.t = Res(@), !.u = Res(@)])
          /\ UNCHANGED cwd

A(act, t, k, x) == [act |-> act, t |-> t, k |-> k, x |-> x, u |-> ""]
A2(act, t, u) == [act |-> act, t |-> t, k |-> 0, x |-> 0, u |-> u]
A3(act, u, k) == [act |-> act, t |-> "", k |-> k, x |-> 0, u |-> u]

Actions ==
  {A(x, t, 0, 0) : x \in {"select", "insertbad", "addcol", "dropcol", "renamevu", "renameuv"}, t \in Tables}
  \cup {A("insert1", t, k, x) : t \in Tables, k \in Keys, x \in Vals}
  \cup {A("insert2", t, k, x) : t \in Tables, k \in Keys, x \in Vals}
  \cup {A(x, t, k, 0) : x \in {"update", "delete"}, t \in Tables, k \in Keys \cup {0}}
  \cup {A("updatefail", t, k, 0) : t \in Tables, k \in Keys}
  \cup {A(r, t, k, x) : r \in {"replace", "replace3", "replacedup"}, t \in Tables, k \in Keys, x \in Vals}
  \cup {A(x, t, 0, 0) : x \in {"selectsub", "selectagg", "addfirst"}, t \in Tables}
  \cup {A(x, t, k, 0) : x \in {"insertcols", "insertbad2", "insertdup", "addfail"}, t \in Tables, k \in Keys}
  \cup {A2(x, t, u) : x \in {"insertsel", "updatejoin", "deletejoin"}, t \in Tables, u \in Tables \ {NewFile}}
  \cup {A("updateswap", t, k, 0) : t \in Tables, k \in Keys \cup {0}}
  \cup {A("inserth", t, k, 0) : t \in Tables, k \in Keys}
  \cup {A("selectfn", t, 0, 0) : t \in AllFiles}
  \cup {A("selectinline", t, 0, 0) : t \in AllFiles}
  \cup {A("selectcase", t, 0, 0) : t \in Files}
  \cup {A("insertd", t, k, 0) : t \in Tables, k \in Keys}
  \cup {A(x, t, 0, 0) : x \in {"deleted", "selectd"}, t \in Tables}
  \cup {[act |-> "insertsub", t |-> t, u |-> u, k |-> k, x |-> x] : t \in Tables, u \in Tables \ {NewFile}, k \in Keys, x \in {0, 1}}
  \cup {A("setenc", t, 0, 0) : t \in Tables}
  \cup {A("selectpath", t, 0, x) : t \in AllFiles, x \in 1..4}          \* x: the spelling
  \cup {A("insertpath", t, k, x) : t \in AllFiles, k \in Keys, x \in 1..4}
  \cup {A3("createas", u, k) : u \in Tables \ {NewFile}, k \in 0..3}
  \cup {[act |-> x, t |-> t, u |-> u, k |-> k, x |-> 0] : x \in {"updatetwo", "deletetwo"}, t \in AllFiles, u \in AllFiles, k \in Keys \cup {7}}
  \cup {A(x, "", 0, 0) : x \in {"callnoop", "nestexec", "nestsource", "nestprep"}}
  \cup {A("callins", t, k, 0) : t \in Tables \ {NewFile, SubFile}, k \in Keys}
  \cup {A("chdir", "", k, 0) : k \in {0, 1}}
  \cup {A("createifnot", t, k, 0) : t \in AllFiles, k \in 0..2}
  \cup {A(x, "", 0, 0) : x \in {"create", "commit", "rollback"}}
  \cup {A("env", f, 0, 0) : f \in Files}
  \cup {A("disk", f, 0, 0) : f \in AllFiles}

Next == \E a \in Actions : Do(a)
Spec == Init /\ [][Next]_vars

-----------------------------------------------------------------------------
(* What the files hold when the run ends now (C01): normally = auto-commit, otherwise = as committed *)
FinalDisk(normal) ==
  IF normal /\ ~ended
    THEN [f \in AllFiles |-> IF f \in dirty \cup created /\ cache[f].loaded THEN cache[f].tbl ELSE disk[f]]
    ELSE disk

-----------------------------------------------------------------------------
(* Properties of the design                                                 *)
\* C08: a failing statement leaves every table as the transaction sees it, and the files, unchanged
FailStutters ==
  [][out'.k = "err" => /\ disk' = disk /\ temp' = temp /\ dirty' = dirty /\ created' = created /\ enc' = enc
                       /\ \A f \in AllFiles : cache'[f].loaded =>
                             cache'[f].tbl = (IF cache[f].loaded /\ (cache[f].upd \/ ~cache'[f].upd) THEN cache[f].tbl ELSE disk[f])]_vars
\* C01: a table that is neither dirty nor created is never written
UntouchedUnwritten == [][\A f \in AllFiles : (f \notin dirty \cup created /\ disk'[f] # disk[f]) => out'.k = "ok" /\ envn' = envn + 1]_vars
\* C20: what we hold for update cannot change under us
HeldStable == [][\A f \in AllFiles : (f \in HeldU /\ f \in HeldU') => disk'[f] = disk[f]]_vars
\* dirty tables are loaded for update
DirtyLoaded == \A f \in dirty \ {TempT} : cache[f].loaded /\ cache[f].upd
EncHeld == enc \subseteq HeldU
\* C01: a COMMIT either writes every changed table or none
CommitAllOrNothing == [][\A f, g \in AllFiles : (f \in dirty \cup created /\ g \in dirty \cup created /\ cache[f].loaded /\ cache[g].loaded /\ envn' = envn /\ disk'[f] # disk[f]) => disk'[g] = cache[g].tbl]_vars
=============================================================================
