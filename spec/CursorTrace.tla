----------------------------- MODULE CursorTrace -----------------------------
(* Trace validation for Cursor: the harness chose the history (longer, larger *)
(* tables), executed it on the real csvq and logged the observed result of    *)
(* every step; TLC replays the same actions on the specification and compares *)
(* every result.                                                             *)
EXTENDS Cursor, Json
Trace == ndJsonDeserialize("trace.ndjson")
VARIABLE l
TraceInit == /\ l = 1 /\ tbl = <<>> /\ base = <<>> /\ cur = [c \in Cursors |-> NoCursor] /\ out = Ok
TraceNext ==
  /\ l <= Len(Trace)
  /\ l' = l + 1
  /\ LET e == Trace[l] IN
       \/ /\ e.act = "init"
          /\ tbl' = e.tbl /\ base' = e.tbl /\ cur' = [c \in Cursors |-> NoCursor] /\ out' = Ok
       \/ /\ e.act # "init"
          /\ Do(e)
          /\ out'.k = e.obs.k /\ out'.e = e.obs.e /\ out'.vals = e.obs.vals
TraceAccepted == TLCGet("stats").diameter - 1 = Len(Trace)
=============================================================================
