CONSTANTS
  Procs <- Procs2
  Files <- Files2
  Programs <- ProgsCrash
  InitExists <- Files1
  RemoveBeforeRename = FALSE
  RemoveOnFailedCreate = FALSE
  AllowCrash = TRUE
  MaxRetries = 1
SPECIFICATION Spec
INVARIANTS WriterExcludesAll ReaderExcludesWriterStart NoLostUpdate CleanExit Durable CrashLeavesOldOrNew
CHECK_DEADLOCK FALSE
