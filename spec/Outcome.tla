------------------------------ MODULE Outcome ------------------------------
(***************************************************************************)
(* C19 (a) - file-system condition of a table path x operation -> the      *)
(* documented outcome classes.  "fatal" (internal Fatal Error, Go panic,   *)
(* hang) is never allowed.  Classes: ok, notexist, exists, io, timeout,    *)
(* parse (data cannot be loaded as a table), usage, other (any other       *)
(* documented error with message and code).                                *)
(***************************************************************************)
EXTENDS Integers, Sequences, FiniteSets, TLC, Json

States == {"missing", "file", "emptyfile", "directory", "garbage", "locked", "lockdir", "cwdremoved"}
Ops == {"select", "update", "insert", "create", "createifnotexists", "alter", "selectout", "source", "tablefn"}

\* what every run may end with besides its specific classes
AnyClass == {"ok", "notexist", "exists", "io", "timeout", "parse", "usage", "other"}

Allowed(s, o) ==
  CASE s = "missing" /\ o \in {"select", "update", "insert", "alter", "selectout", "tablefn"} -> {"notexist"}
    [] s = "missing" /\ o \in {"create", "createifnotexists"} -> {"ok"}
    [] s = "missing" /\ o = "source" -> {"notexist", "io", "other"}
    [] s = "file" /\ o = "create" -> {"exists"}
    [] s = "file" /\ o \in {"select", "update", "insert", "alter", "createifnotexists", "selectout", "tablefn"} -> {"ok"}
    [] s = "locked" /\ o \in {"select", "update", "insert", "alter", "selectout", "tablefn"} -> {"timeout"}
    [] s = "locked" /\ o = "create" -> {"exists"}
    [] s = "directory" -> AnyClass \ {"ok"}
    [] OTHER -> AnyClass

=============================================================================
