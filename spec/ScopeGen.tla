------------------------------ MODULE ScopeGen ------------------------------
(* Program generator for Scope: skeletons with holes; every hole is filled     *)
(* with every atom (exhaustive over skeleton x atoms).  Each program is        *)
(* executed by the semantics (Run) and emitted with what it must print and     *)
(* how it must end; the harness renders it to csvq text and runs it.           *)
EXTENDS Scope, Json

L(v) == [k |-> "lit", v |-> v]
Vr(x) == [k |-> "var", x |-> x]
Add(l, r) == [k |-> "add", l |-> l, r |-> r]
Lt(l, r) == [k |-> "lt", l |-> l, r |-> r]
CallF(f, a) == [k |-> "call", f |-> f, a |-> a]

VarS(x, e) == [k |-> "var", x |-> x, e |-> e]
SetS(x, e) == [k |-> "set", x |-> x, e |-> e]
Disp(x) == [k |-> "dispose", x |-> x]
Pr(e) == [k |-> "print", e |-> e]
If1(c, body) == [k |-> "if", branches |-> <<[c |-> c, body |-> body]>>, els |-> <<>>]
If2(c, body, els) == [k |-> "if", branches |-> <<[c |-> c, body |-> body]>>, els |-> els]
If3(c1, b1, c2, b2, els) == [k |-> "if", branches |-> <<[c |-> c1, body |-> b1], [c |-> c2, body |-> b2]>>, els |-> els]
While(c, body) == [k |-> "while", c |-> c, body |-> body]
Brk == [k |-> "break"]
Cont == [k |-> "continue"]
Ext == [k |-> "exit"]
Ret(e) == [k |-> "return", e |-> e]
Func(f, p, body) == [k |-> "func", f |-> f, p |-> p, body |-> body, q |-> "", d |-> L(0), agg |-> FALSE]
AggF(f) == [k |-> "func", f |-> f, p |-> "", body |-> <<>>, q |-> "", d |-> L(0), agg |-> TRUE]
AggQ(f, t) == [k |-> "aggq", f |-> f, t |-> t]
Func2(f, p, q, d, body) == [k |-> "func", f |-> f, p |-> p, body |-> body, q |-> q, d |-> d, agg |-> FALSE]
WhileIn(x, decl, c, body) == [k |-> "whilein", x |-> x, decl |-> decl, c |-> c, body |-> body]

CurDecl(c, v) == [k |-> "curdecl", c |-> c, vs |-> <<v>>]
CurDeclN(c, vs) == [k |-> "curdecl", c |-> c, vs |-> vs]
CurUse(c, x) == [k |-> "curuse", c |-> c, x |-> x]
CurDisp(c) == [k |-> "curdispose", c |-> c]
TabDecl(t, v) == [k |-> "tabdecl", t |-> t, v |-> v]
TabDisp(t) == [k |-> "tabdispose", t |-> t]
Tab(t) == [k |-> "tab", t |-> t]

\* cursors and temporary tables are block-scoped like variables
Objs == { CurDecl("cur", 31), CurDecl("cur", 32), CurUse("cur", "@a"), CurDisp("cur"),
          TabDecl("tt", 41), TabDecl("tt", 42), Pr(Tab("tt")), TabDisp("tt"), Pr(Vr("@a")) }

\* atoms usable anywhere
Basic == { VarS("@a", L(1)), VarS("@b", L(2)), VarS("@a", L(10)), SetS("@a", Add(Vr("@a"), L(1))), SetS("@b", Vr("@a")),
           Pr(Vr("@a")), Pr(Vr("@b")), Disp("@a"), Ext,
           If1(Lt(Vr("@a"), L(2)), <<VarS("@b", L(7)), SetS("@a", Add(Vr("@a"), Vr("@b")))>>) }
\* atoms for loop bodies (the loop counter is @i)
InLoop == Basic \cup { Brk, Cont, If1(Lt(Vr("@i"), L(2)), <<Cont>>), If1(Lt(L(1), Vr("@i")), <<Brk>>),
                       VarS("@c", Vr("@i")), Pr(Vr("@i")) }
\* atoms for function bodies (parameter @p)
InFunc == (Basic \ {Ext}) \cup { Ret(Add(Vr("@p"), L(100))), SetS("@p", Add(Vr("@p"), L(1))), VarS("@p", L(0)), Pr(Vr("@p")),
                                 If1(Lt(Vr("@p"), L(3)), <<Ret(L(50))>>) }

Sk1 == {<<h1, h2, h3, Pr(Vr("@a"))>> : h1, h2, h3 \in Basic}
Sk2 == {<<VarS("@a", L(0)), h1, If2(Lt(Vr("@a"), L(1)), <<h2, Pr(Vr("@a"))>>, <<h3>>), Pr(Vr("@a"))>> : h1, h2, h3 \in Basic}
Sk3 == {<<VarS("@i", L(0)), VarS("@a", L(5)),
          While(Lt(Vr("@i"), L(3)), <<SetS("@i", Add(Vr("@i"), L(1))), h1, h2, Pr(Vr("@a"))>>),
          Pr(Vr("@a")), Pr(Vr("@i"))>> : h1, h2 \in InLoop}
Sk4 == {<<Func("f", "@p", <<h1, h2, Ret(Add(Vr("@p"), L(1)))>>), VarS("@a", L(1)), h3,
          Pr(CallF("f", Vr("@a"))), Pr(Vr("@a")), Pr(CallF("f", L(5)))>> : h1, h2 \in InFunc, h3 \in Basic}
\* recursion: every invocation has its own @n and locals
Sk5 == {<<Func("f", "@n", <<If1(Lt(Vr("@n"), L(1)), <<Ret(L(0))>>), h1, VarS("@t", Vr("@n")),
                            VarS("@r", CallF("f", Add(Vr("@n"), L(-1)))), Pr(Vr("@t")), Ret(Add(Vr("@r"), L(1)))>>),
          VarS("@a", L(1)), Pr(CallF("f", L(2))), h2>> : h1 \in InFunc, h2 \in Basic}
\* shadowing in a branch and an ELSEIF chain
Sk6 == {<<VarS("@a", L(1)), If3(Lt(Vr("@a"), L(1)), <<h1>>, Lt(Vr("@a"), L(2)), <<VarS("@a", L(20)), h2, Pr(Vr("@a"))>>, <<h1>>),
          Pr(Vr("@a")), h3>> : h1, h2, h3 \in Basic}
\* a loop inside a function called twice; a function declared inside a block
Sk7 == {<<Func("g", "@p", <<VarS("@i", L(0)), While(Lt(Vr("@i"), Vr("@p")), <<SetS("@i", Add(Vr("@i"), L(1))), h1, If1(Lt(L(1), Vr("@i")), <<Ret(Vr("@i"))>>)>>), Ret(L(-1))>>),
          VarS("@a", L(0)), Pr(CallF("g", L(3))), Pr(CallF("g", L(1))),
          If1(Lt(L(0), L(1)), <<Func("h", "@q", <<Ret(Add(Vr("@q"), L(1)))>>), Pr(CallF("h", L(1)))>>), h2, Pr(CallF("h", L(1)))>> : h1 \in InLoop \ {Ext}, h2 \in Basic}

\* objects declared outside and inside an IF branch (a branch made of object statements only), used after it
Sk8 == {<<VarS("@a", L(0)), h1, If2(Lt(Vr("@a"), L(1)), <<h2, h3>>, <<h2>>), h4, CurUse("cur", "@a"), Pr(Vr("@a")), Pr(Tab("tt"))>> : h1, h2, h3, h4 \in Objs}
\* ... inside a loop body (the loop block is cleared at every iteration) and inside a function called twice
Sk9 == {<<VarS("@a", L(0)), VarS("@i", L(0)), h1, While(Lt(Vr("@i"), L(2)), <<SetS("@i", Add(Vr("@i"), L(1))), h2, h3>>), h4>> : h1, h2, h3, h4 \in Objs}
Sk10 == {<<VarS("@a", L(0)), h1, Func("f", "@p", <<h2, h3, Ret(Vr("@a"))>>), Pr(CallF("f", L(1))), Pr(CallF("f", L(2))), h4>> : h1, h2, h3, h4 \in Objs}

\* a DEFAULT expression is evaluated at every call that omits the parameter
Sk11 == {<<VarS("@a", L(1)), Func2("g", "@p", "@q", Add(Vr("@p"), Vr("@a")), <<h1, Ret(Add(Vr("@p"), Vr("@q")))>>),
           Pr(CallF("g", L(10))), h2, SetS("@a", L(5)), Pr(CallF("g", L(10))), Pr(CallF("g", L(20)))>>
         : h1 \in InFunc \cup {SetS("@q", L(0)), Pr(Vr("@q"))}, h2 \in Basic}
\* a loop over a cursor inside a function, left by RETURN; afterwards blocks nested four deep and a recursion of depth 4
Fact == Func("fact", "@n", <<If1(Lt(Vr("@n"), L(2)), <<Ret(L(1))>>), VarS("@m", CallF("fact", Add(Vr("@n"), L(-1)))), Ret(Add(Vr("@m"), Vr("@n")))>>)
InCurLoop == { Pr(Vr("@x")), Cont, Brk, VarS("@t", Vr("@x")), SetS("@a", Add(Vr("@a"), Vr("@x"))), If1(Lt(L(1), Vr("@x")), <<Brk>>) }
Sk12 == {<<VarS("@a", L(0)), Fact,
           Func("agg", "@p", <<CurDeclN("c", <<1, 2, 3>>), WhileIn("@x", d, "c", <<h1, If1(Lt(Vr("@p"), Vr("@x")), <<Ret(Vr("@x"))>>)>>), Ret(L(-1))>>),
           VarS("@x", L(0)), Pr(CallF("agg", L(1))), Pr(CallF("agg", L(5))), Pr(Vr("@a")),
           If1(Lt(L(0), L(1)), <<VarS("@a", L(2)), If1(Lt(L(0), L(1)), <<VarS("@a", L(3)), If1(Lt(L(0), L(1)), <<VarS("@a", L(4)), h2, Pr(Vr("@a"))>>), Pr(Vr("@a"))>>), Pr(Vr("@a"))>>),
           Pr(Vr("@a")), Pr(CallF("fact", L(4))), Pr(CallF("agg", L(2)))>>
         : h1 \in InCurLoop, h2 \in Basic, d \in BOOLEAN}
\* the same loop at top level over an outer cursor (left open by EXIT only)
Sk13 == {<<VarS("@a", L(0)), VarS("@x", L(0)), CurDeclN("c", <<1, 2, 3>>), WhileIn("@x", d, "c", <<h1, h2>>), Pr(Vr("@a")), Pr(Vr("@x")), CurUse("c", "@a"), Pr(Vr("@a"))>>
         : h1, h2 \in InCurLoop \cup {Ext}, d \in BOOLEAN}

\* a scalar and an aggregate function of one name in nested blocks: the innermost declaration decides what f(n) in a query means
FDecls == { AggF("f"), Func("f", "@p", <<Ret(Add(Vr("@p"), L(1)))>>), Func("f", "@p", <<Pr(Vr("@p")), Ret(L(9))>>), Pr(L(0)) }
Sk14 == {<<h1, TabDecl("tt", 5), If1(Lt(L(0), L(1)), <<h2, Pr(AggQ("f", "tt")), Pr(CallF("f", L(3)))>>), Pr(AggQ("f", "tt")), Pr(CallF("f", L(3))), h3, Pr(AggQ("f", "tt"))>>
         : h1, h2, h3 \in FDecls}
Sk15 == {<<h1, TabDecl("tt", 5), Func("g", "@q", <<h2, Ret(AggQ("f", "tt"))>>), Pr(CallF("g", L(0))), h3, Pr(CallF("g", L(0))), Pr(AggQ("f", "tt"))>>
         : h1, h2, h3 \in FDecls}

\* one cursor name declared outside (and perhaps opened) and again in a branch / in a function body: every statement means the
\* innermost cursor of the name, in whatever state that one is
CurOpen(c) == [k |-> "curopen", c |-> c]
CurClose(c) == [k |-> "curclose", c |-> c]
CurFirst(c, x) == [k |-> "curfirst", c |-> c, x |-> x]
CurIsOpen(c) == [k |-> "curisopen", c |-> c]
CurAtoms == { CurDecl("cur", 32), CurOpen("cur"), CurFirst("cur", "@a"), CurClose("cur"), CurIsOpen("cur"), CurDisp("cur") }
Sk16 == {<<VarS("@a", L(0)), CurDecl("cur", 31), h0, If1(Lt(L(0), L(1)), <<h1, h2, h3>>), h4, Pr(Vr("@a"))>>
         : h0 \in {CurOpen("cur"), Pr(L(0))}, h1, h2, h3 \in CurAtoms, h4 \in {CurFirst("cur", "@a"), CurIsOpen("cur")}}
Sk17 == {<<VarS("@a", L(0)), CurDecl("cur", 31), h0, Func("f", "@p", <<h1, h2, h3, Ret(Vr("@a"))>>), Pr(CallF("f", L(1))), h4, Pr(Vr("@a"))>>
         : h0 \in {CurOpen("cur"), Pr(L(0))}, h1, h2, h3 \in CurAtoms, h4 \in {CurFirst("cur", "@a"), CurIsOpen("cur")}}
CursorPrograms == Sk16 \cup Sk17

\* a WHILE loop inside a function left by RETURN (the loop's block and the function's block end together), afterwards blocks
\* nested four deep, each with a variable of its own that is read after the inner block has ended, and a recursion of depth 4
Sk18 == {<<VarS("@a", L(0)), Fact,
           Func("upto", "@p", <<VarS("@i", L(0)), While(Lt(Vr("@i"), L(3)), <<SetS("@i", Add(Vr("@i"), L(1))), h1, If1(Lt(Vr("@p"), Vr("@i")), <<Ret(Vr("@i"))>>)>>), Ret(L(-1))>>),
           Pr(CallF("upto", L(1))), Pr(CallF("upto", L(5))), Pr(CallF("upto", L(0))), Pr(Vr("@a")),
           If1(Lt(L(0), L(1)), <<VarS("@b", L(2)), If1(Lt(L(0), L(1)), <<VarS("@b", L(3)), If1(Lt(L(0), L(1)), <<VarS("@b", L(4)), If1(Lt(L(0), L(1)), <<VarS("@b", L(5)), h2, Pr(Vr("@b"))>>), Pr(Vr("@b"))>>), Pr(Vr("@b"))>>), Pr(Vr("@b"))>>),
           Pr(Vr("@a")), Pr(CallF("fact", L(4))), Pr(CallF("upto", L(2)))>>
         : h1 \in InLoop \ {Ext, Brk}, h2 \in Basic}
\* many declarations in one block (40 variables): the block of a loop pass, of a branch and of a function invocation is cleared
\* all the same - the second pass, the second branch and the second invocation declare them again, and none is left afterwards
ManyVars == [i \in 1..40 |-> VarS("@v" \o ToString(i), L(i))]
Sk19 == {<<VarS("@a", L(0)), VarS("@i", L(0)),
           While(Lt(Vr("@i"), L(2)), <<SetS("@i", Add(Vr("@i"), L(1)))>> \o ManyVars \o <<SetS("@a", Add(Vr("@a"), Vr("@v7"))), h1>>),
           Pr(Vr("@a")),
           If1(Lt(L(0), L(1)), ManyVars \o <<VarS("@a", L(100)), SetS("@a", Add(Vr("@a"), Vr("@v9")))>>),
           If1(Lt(L(0), L(1)), ManyVars \o <<h2, Pr(Vr("@a"))>>),
           Func("f", "@p", ManyVars \o <<If1(Lt(Vr("@p"), L(1)), <<Ret(Vr("@v3"))>>), Ret(Add(Vr("@v5"), CallF("f", Add(Vr("@p"), L(-1)))))>>),
           Pr(CallF("f", L(2))), Pr(CallF("f", L(0))), h3, Pr(Vr("@a"))>>
         : h1 \in InLoop \ {Ext}, h2, h3 \in {Pr(Vr("@v1")), SetS("@a", L(1)), Pr(Vr("@a")), Disp("@v2")}}
PoolPrograms == Sk12 \cup Sk18 \cup Sk19

Programs == Sk18 \cup Sk19 \cup Sk16 \cup Sk17 \cup Sk14 \cup Sk15 \cup Sk11 \cup Sk12 \cup Sk13 \cup Sk1 \cup Sk2 \cup Sk3 \cup Sk4 \cup Sk5 \cup Sk6 \cup Sk7 \cup Sk8 \cup Sk9 \cup Sk10

CONSTANTS Fuel, ProgSet      \* ProgSet: the programs of this run (all families, or one)
VARIABLE prog
Init == prog \in ProgSet
Next == UNCHANGED prog
Emit == LET r == Run(prog, Fuel)  r2 == RunNS(prog, Fuel, TRUE) IN
        r.end = "FUEL" \/ PrintT(<<"TRACE", ToJson([prog |-> prog, out |-> r.out, end |-> r.end, out2 |-> r2.out, end2 |-> r2.end])>>)
BalancedInv == LET r == Run(prog, Fuel) IN r.end = "FUEL" \/ r.depth = 1
=============================================================================
