------------------------------ MODULE RelTrace ------------------------------
(* Validation of recorded query executions against Relational.tla: every     *)
(* event carries the input tables (cells with their attributes), the query in *)
(* structured form and the result csvq returned; TLC evaluates the            *)
(* definition and accepts or rejects.                                         *)
EXTENDS Relational, Json
Trace == ndJsonDeserialize("trace.ndjson")
VARIABLE l

Expected(e) ==
  CASE e.kind = "filter" -> TextRows(Project(Filter(e.in, e.cond), e.proj))
    [] e.kind = "join"   -> TextRows(Project(Filter(JoinRows(e.jk, e.L, e.R, e.cond, e.wl, e.wr), e.where), e.proj))
    [] e.kind = "using"  -> TextRows(UsingJoin(e.jk, e.L, e.R, e.ul, e.ur, e.wl, e.wr))
    \* SELECT proj2 FROM (SELECT proj FROM t WHERE cond) s WHERE cond2   (also as WITH s AS (...))
    [] e.kind = "nested" -> TextRows(Project(Filter(Project(Filter(e.in, e.cond), e.proj), e.cond2), e.proj2))
    \* WITH s AS (SELECT proj FROM t WHERE cond) SELECT proj2 FROM s WHERE cond2 UNION ALL SELECT proj3 FROM s :
    \* every reference to s sees the same rows
    [] e.kind = "cte2"   -> LET S == Project(Filter(e.in, e.cond), e.proj) IN
                            TextRows(Project(Filter(S, e.cond2), e.proj2)) \o TextRows(Project(S, e.proj3))

SetOpRows(e) ==
  CASE e.op = "union" /\ ~e.all     -> UnionD(e.A, e.B)
    [] e.op = "union" /\ e.all      -> e.A \o e.B
    [] e.op = "except" /\ ~e.all    -> ExceptD(e.A, e.B)
    [] e.op = "except" /\ e.all     -> ExceptAll(e.A, e.B)
    [] e.op = "intersect" /\ ~e.all -> IntersectD(e.A, e.B)
    [] e.op = "intersect" /\ e.all  -> IntersectAll(e.A, e.B)

GroupOK(e) ==
  /\ BucketsOK(e.keys, [j \in 1..Len(e.res) |-> e.res[j].key])
  /\ Decided(e.keys) =>
       /\ Len(e.res) = Len(FirstOfBuckets(e.keys))
       /\ \A j \in 1..Len(e.res) :
            LET mem == Members(e.keys, e.res[j].key)
                idx == SelectSeq([i \in 1..Len(e.keys) |-> i], LAMBDA i : i \in mem)
                cs == [k \in 1..Len(idx) |-> e.vals[idx[k]]] IN
            /\ e.res[j].cnt = Cardinality(mem)
            /\ e.res[j].cntv = CountNN(cs)
            \* LISTAGG(id) WITHIN GROUP (ORDER BY id): exactly the rows of the bucket (id = position of the row in the table)
            /\ e.res[j].ids = idx
            /\ e.res[j].ids2 = idx        \* ... the same list ordered by an expression
            \* user-defined aggregate functions receive every value of the bucket, NULLs included
            /\ e.res[j].ucnt = Cardinality(mem) /\ e.res[j].unn = CountNN(cs)
            /\ e.res[j].hasmed = (NumCells(cs) # <<>>)
            /\ (e.res[j].hasmed => e.res[j].med4 = Median4(NumCells(cs)))
            \* DISTINCT applies to whatever the argument is: a constant has one distinct value, a column of numbers as many as it has different numbers
            /\ e.res[j].cnt1 = 1
            \* COUNT(DISTINCT k2), k2 a text column that is not a grouping key: as many as the texts of the bucket form buckets
            \* themselves - by the loose equality, or, under --strict-equal, by the strict one (the harness hands over strict cells then)
            /\ (e.judgeks => e.res[j].cdk = Len(FirstOfBuckets(SelectSeq([k \in 1..Len(idx) |-> e.ks[idx[k]]], LAMBDA rw : ~rw[1].n))))
            /\ (~e.res[j].mixed => e.res[j].cntd = Cardinality({NumCells(cs)[i].f2 : i \in 1..Len(NumCells(cs))}))
            /\ (e.res[j].hassum => /\ NumCells(cs) # <<>>
                                   /\ e.res[j].sum2 = Sum2(NumCells(cs))
                                   \* MIN / MAX are judged on buckets of numbers only (a text among them is ordered by the type ladder)
                                   /\ (~e.res[j].mixed => e.res[j].min2 = Min2(cs) /\ e.res[j].max2 = Max2(cs)))
            /\ (~e.res[j].hassum => NumCells(cs) = <<>>)
            \* AVG is the sum of the numbers divided by how many NUMBERS there are (texts and NULLs do not count)
            /\ e.res[j].hasavg = (NumCells(cs) # <<>>)
            /\ (e.res[j].hasavg /\ Len(NumCells(cs)) <= 15) =>
                  LET a == e.res[j].avq[Len(NumCells(cs))] IN a.ok /\ a.v = Sum2(NumCells(cs))

\* PARTITION BY buckets rows like GROUP BY: every row sees the count and the sum of exactly the rows of its bucket,
\* whatever other analytic functions (with their own ORDER BY) stand in the same select list
PartitionOK(e) ==
  Decided(e.keys) =>
    \A i \in 1..Len(e.keys) :
      LET mem == Members(e.keys, e.keys[i])
          idx == SelectSeq([k \in 1..Len(e.keys) |-> k], LAMBDA k : k \in mem)
          cs == [k \in 1..Len(idx) |-> e.vals[idx[k]]] IN
      /\ e.res[i].cnt = Cardinality(mem)
      /\ e.res[i].hassum = (NumCells(cs) # <<>>)
      /\ e.res[i].hassum => e.res[i].sum2 = Sum2(NumCells(cs))

\* analytic functions: for every row the logged value must equal the definition under SOME valid order of its
\* partition; the harness logs the order csvq's ROW_NUMBER reveals (ord, per partition) and TLC checks it is valid
RECURSIVE JoinText(_, _)
JoinText(cs, sep) == IF Len(cs) = 1 THEN cs[1].t ELSE cs[1].t \o sep \o JoinText(Tail(cs), sep)
AnalyticOK(e) ==
  \A x \in 1..Len(e.parts) :
    LET ord == e.parts[x].ord  n == Len(ord) IN
    /\ ValidOrder(e.rows, PartitionOf(e.rows, e.pcols, e.rows[ord[1]]), ord, e.keys)
    /\ \A p \in 1..n :
         LET got == e.parts[x].vals[p] IN
         CASE e.fn = "row_number"   -> got.i = p
           [] e.fn = "rank"         -> got.i = RankAt(e.rows, ord, p, e.keys)
           [] e.fn = "dense_rank"   -> got.i = DenseRankAt(e.rows, ord, p, e.keys)
           [] e.fn = "cume_dist"    -> got.num * n = CumeNum(e.rows, ord, p, e.keys) * got.den
           \* (a partition of one row: (rank - 1) / (rows - 1) is 0 / 0; the manual does not settle it - csvq answers 1, the SQL standard 0)
           [] e.fn = "percent_rank" -> IF n = 1 THEN TRUE ELSE got.num * (n - 1) = (RankAt(e.rows, ord, p, e.keys) - 1) * got.den
           [] e.fn = "ntile"        -> got.i = NtileAt(n, e.arg, p)
           [] e.fn = "lag" /\ ~e.ign  -> got.t = (IF p - e.arg >= 1 THEN TextOf(e.rows[ord[p - e.arg]][e.col]) ELSE "NULL")
           [] e.fn = "lead" /\ ~e.ign -> got.t = (IF p + e.arg <= n THEN TextOf(e.rows[ord[p + e.arg]][e.col]) ELSE "NULL")
           \* IGNORE NULLS (offset 1): the nearest earlier / later row of the partition whose value is not NULL
           [] e.fn = "lag" /\ e.ign   -> LET qs == {q \in 1..(p - 1) : ~e.rows[ord[q]][e.col].n} IN
                                         got.t = (IF qs = {} THEN "NULL" ELSE TextOf(e.rows[ord[CHOOSE q \in qs : \A q2 \in qs : q2 <= q]][e.col]))
           [] e.fn = "lead" /\ e.ign  -> LET qs == {q \in (p + 1)..n : ~e.rows[ord[q]][e.col].n} IN
                                         got.t = (IF qs = {} THEN "NULL" ELSE TextOf(e.rows[ord[CHOOSE q \in qs : \A q2 \in qs : q2 >= q]][e.col]))
           \* LISTAGG(v, sep) OVER (PARTITION .. ORDER ..): the non-NULL values of the partition in its order, joined by the
           \* separator; two calls with different separators are two columns
           [] e.fn = "listagg"      -> LET cs == SelectSeq([q \in 1..n |-> e.rows[ord[q]][e.col]], LAMBDA c : ~c.n) IN
                                       /\ got.t = (IF cs = <<>> THEN "NULL" ELSE JoinText(cs, "a"))
                                       /\ got.t2 = (IF cs = <<>> THEN "NULL" ELSE JoinText(cs, "A"))
           \* a user-defined aggregate tagcount(v, p) OVER (PARTITION BY p) = the row's own p, ':' and the number of rows of the partition
           [] e.fn = "useragg"      -> LET c == e.rows[ord[p]][2] IN got.t = (IF c.n THEN "NULL" ELSE c.t \o ":" \o ToString(n))
           [] e.fn \in {"first_value", "last_value", "nth_value", "count", "sum", "min", "max"} ->
                LET all == FrameCells(e.rows, ord, p, e.lo, e.hi, e.col)
                    \* IGNORE NULLS: the function sees the frame without its NULL values
                    cs == IF e.ign THEN SelectSeq(all, LAMBDA c : ~c.n) ELSE all IN
                CASE e.fn = "first_value" -> got.t = (IF cs = <<>> THEN "NULL" ELSE TextOf(cs[1]))
                  [] e.fn = "last_value"  -> got.t = (IF cs = <<>> THEN "NULL" ELSE TextOf(cs[Len(cs)]))
                  [] e.fn = "nth_value"   -> got.t = (IF Len(cs) < e.arg THEN "NULL" ELSE TextOf(cs[e.arg]))
                  [] e.fn = "count"       -> got.i = CountNN(cs)
                  [] e.fn = "sum"         -> IF NumCells(cs) = <<>> THEN got.t = "NULL" ELSE got.i2 = Sum2(NumCells(cs))
                  [] e.fn = "min"         -> IF NumCells(cs) = <<>> THEN got.t = "NULL" ELSE got.i2 = Min2(cs)
                  [] e.fn = "max"         -> IF NumCells(cs) = <<>> THEN got.t = "NULL" ELSE got.i2 = Max2(cs)

Accept(e) ==
  CASE e.kind = "sort"     -> WindowOK(e.in, e.res, e.keys, e.m, e.lim, e.ties, e.idc)
    [] e.kind \in {"filter", "nested", "cte2"} -> TextRows(e.res) = Expected(e)
    [] e.kind \in {"join", "using"} -> IF e.ordered THEN TextRows(e.res) = Expected(e) ELSE SameBag(TextRows(e.res), Expected(e))
    [] e.kind = "distinct" -> /\ BucketsOK(e.keys, e.res)
                              /\ Decided(e.keys) => TextRows(e.res) = TextRows(FirstOfBuckets(e.keys))
    [] e.kind = "group"    -> GroupOK(e)
    \* COUNT(*) of a grouped derived table: one row per bucket of the inner query (n), one row if it is cut by LIMIT 1 (n1)
    [] e.kind = "groupnest" -> /\ e.n1 = (IF e.keys = <<>> THEN 0 ELSE 1)
                               /\ Decided(e.keys) => e.n = Len(FirstOfBuckets(e.keys))
    [] e.kind = "partition" -> PartitionOK(e)
    [] e.kind = "setop"    -> Decided(e.A \o e.B) => TextRows(e.res) = TextRows(SetOpRows(e))
    [] e.kind = "analytic" -> AnalyticOK(e)
    \* the same source read by several queries of one statement (UNION ALL over a common table expression or
    \* sub-query) or again by a later statement: what each part gives alone, in order (C14)
    [] e.kind = "concat"   -> e.whole = Concat(e.parts)
    \* one statement with the select-list items of several: row by row the texts of the parts side by side ("|" between cells)
    [] e.kind = "columns"  -> /\ \A p \in 1..Len(e.parts) : Len(e.parts[p]) = Len(e.whole)
                              /\ \A i \in 1..Len(e.whole) : e.whole[i] = e.parts[1][i] \o "|" \o e.parts[2][i]
    \* FROM t, LATERAL (SELECT COUNT(*) FROM u WHERE u.c = t.c): one row per row of t, in order, with its own count
    [] e.kind = "lateralcount" ->
         /\ Len(e.res) = Len(e.L)
         /\ \A i \in 1..Len(e.L) :
              /\ TextOf(e.res[i][1]) = TextOf(e.L[i][1])
              /\ e.res[i][2].hasI
              /\ e.res[i][2].i = Cardinality({j \in 1..Len(e.R) : Eq(e.R[j][e.ri], e.L[i][e.li]) = "T"})
    \* recursive common table expression over an acyclic edge table
    [] e.kind = "recursive" ->
         LET exp == RecResultAll(e.edges, e.k0, e.depth) IN
         IF e.all THEN SameBag(e.res, exp)
         ELSE /\ Range(e.res) = Range(exp)                      \* UNION: each distinct row ...
              /\ Cardinality(Range(e.res)) = Len(e.res)         \* ... exactly once
    \* SELECT (cond) FROM t : the three-valued result of the condition for every row, in order
    [] e.kind = "truth"    -> e.res = [i \in 1..Len(e.in) |-> Truth(e.cond, e.in[i])]

TraceInit == l = 1
TraceNext == l <= Len(Trace) /\ (Accept(Trace[l]) = TRUE) /\ l' = l + 1   \* "= TRUE": evaluate as an expression (short-circuiting), not as an action
TraceAccepted == TLCGet("stats").diameter - 1 = Len(Trace)
=============================================================================
