CONSTANTS
 Objs <- O3
 Holders <- H2
 Vals <- V2
 Disciplined = TRUE
INIT Init
NEXT Next
INVARIANTS NoAlias PoolSane
CHECK_DEADLOCK FALSE
