CONSTANTS
 N = 5
 W = 2
 Key <- Key5
 Discipline = "concat"
INIT Init
NEXT Next
INVARIANTS PartitionExact Deterministic
CHECK_DEADLOCK FALSE
