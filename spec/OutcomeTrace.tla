---------------------------- MODULE OutcomeTrace ----------------------------
(* Every run of the real binary is one event: its file-system state, the      *)
(* operation and the class of its outcome (matrix), or a run whose only       *)
(* contract is "no internal failure" (boundary arguments, random input        *)
(* bytes), or a load whose table must be rectangular.                         *)
EXTENDS Outcome
Trace == ndJsonDeserialize("trace.ndjson")
VARIABLE l
TraceInit == l = 1
\* TLC judges every event; a rejected event is printed and the trace goes on, so that one run judges all of them
\* (a known finding early in the trace must not keep later events from being judged)
Ok(e) ==
  CASE e.kind = "matrix"  -> e.class # "fatal" /\ e.class \in Allowed(e.state, e.op)
    [] e.kind = "nofatal" -> e.class # "fatal"
    [] e.kind = "load"    -> e.class # "fatal" /\ (e.class = "ok" => e.rectangular)
TraceNext ==
  /\ l <= Len(Trace)
  /\ l' = l + 1
  /\ IF Ok(Trace[l]) THEN TRUE ELSE PrintT(<<"TRACE", ToJson([reject |-> l])>>)
TraceAccepted == TLCGet("stats").diameter - 1 = Len(Trace)
=============================================================================
