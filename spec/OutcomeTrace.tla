---------------------------- MODULE OutcomeTrace ----------------------------
(* Every run of the real binary is one event: its file-system state, the      *)
(* operation and the class of its outcome (matrix), or a run whose only       *)
(* contract is "no internal failure" (boundary arguments, random input        *)
(* bytes), or a load whose table must be rectangular.                         *)
EXTENDS Outcome
Trace == ndJsonDeserialize("trace.ndjson")
VARIABLE l
TraceInit == l = 1
TraceNext ==
  /\ l <= Len(Trace)
  /\ l' = l + 1
  /\ LET e == Trace[l] IN
       \/ e.kind = "matrix" /\ ((e.class # "fatal" /\ e.class \in Allowed(e.state, e.op)) = TRUE)
       \/ e.kind = "nofatal" /\ ((e.class # "fatal") = TRUE)
       \/ e.kind = "load" /\ ((e.class # "fatal" /\ (e.class = "ok" => e.rectangular)) = TRUE)
TraceAccepted == TLCGet("stats").diameter - 1 = Len(Trace)
=============================================================================
