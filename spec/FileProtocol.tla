--------------------------- MODULE FileProtocol ---------------------------
(***************************************************************************)
(* csvq's file access protocol (lib/file + the parts of lib/query that     *)
(* drive it), one action per file-system step, as coded.                   *)
(*                                                                         *)
(* A process runs a program: a sequence of operations                      *)
(*   read f | update f | create f | commit | rollback                      *)
(* (SELECT / first data-changing statement / CREATE TABLE / COMMIT /       *)
(* ROLLBACK).  pc[p].pt is the name of the hook point in the code at which *)
(* p is parked, i.e. the file-system step p executes NEXT.  The names are  *)
(* the ones passed to verifPoint() in lib/file and lib/query, so that a    *)
(* recorded execution maps 1:1 onto actions (FileProtocolTrace.tla) and a  *)
(* TLC behaviour maps 1:1 onto gate releases (harness scheduler).          *)
(*                                                                         *)
(* Properties: C09 (mutual exclusion, no lost update, timeout harmless),   *)
(* C10 (Crash at any pc), C11 (clean exit).                                *)
(***************************************************************************)
EXTENDS Integers, Sequences, FiniteSets, TLC

CONSTANTS Procs,        \* e.g. {"p1","p2"}
          Files,        \* e.g. {"f1"}
          Programs,     \* set of programs a process may run (sequences of [op, f])
          InitExists,   \* SUBSET Files: tables present at the start
          RemoveBeforeRename, \* TRUE: commit swap = Remove(path); Rename(temp,path); FALSE: Rename only
          RemoveOnFailedCreate, \* TRUE: a failed CREATE removes the path (pinned code before the fix); FALSE: it does not
          AllowCrash,   \* Crash(p) enabled
          MaxRetries    \* bound on wait.retry loops per process (state-space bound only)

NoProc == "none"
NoFile == "-"

VARIABLES
  prog,     \* [Procs -> Programs]
  ip,       \* [Procs -> Nat]  index of the current operation
  pc,       \* [Procs -> [pt, f, cf, k]]
  retries,  \* [Procs -> Nat]
  outcome,  \* [Procs -> STRING]  "run" | "ok" | "timeout" | "notexist" | "exists" | "io" | "crashed"
  data,     \* [Files -> [exists, ver, empty]]  the table file; ver = number of committed updates it contains;
            \*                             empty = it has no records (made by CREATE TABLE): an UPDATE of it changes nothing
  lockf,    \* [Files -> Procs \cup {NoProc}]  creator of the existing ._f.lock, NoProc = absent
  rlockf,   \* [Files -> SUBSET Procs]         creators of existing ._f.*.rlock files
  tempf,    \* [Files -> Procs \cup {NoProc}]  creator of the existing ._f.temp
  flockEx,  \* [Files -> Procs \cup {NoProc}]  holder of the exclusive flock on the table file
  flockSh,  \* [Files -> SUBSET Procs]
  held,     \* [Procs -> SUBSET Files]  tables held for update by the transaction of p
  made,     \* [Procs -> SUBSET Files]  tables created (uncommitted) by the transaction of p
  loaded,   \* [Procs -> [Files -> Int]]  version p read (-1 = none)
  commits,  \* [Files -> Nat]   ghost: number of completed commit swaps
  inW,      \* [Procs -> SUBSET Files]  ghost: p passed the re-check for f and has not yet removed its lock file
  durable   \* SUBSET Files    ghost: tables that exist as far as committed transactions know

ctl   == <<prog, ip, pc, retries, outcome>>
fs    == <<data, lockf, rlockf, tempf, flockEx, flockSh>>
txv   == <<held, made, loaded>>
ghost == <<commits, inW, durable>>
vars  == <<ctl, fs, txv, ghost>>

PC(pt, f, cf, k) == [pt |-> pt, f |-> f, cf |-> cf, k |-> k]
Op(p) == prog[p][ip[p]]

-----------------------------------------------------------------------------
(* Where does p go when its current operation is over?                      *)

\* the set of possible program counters when operation number i of program pg is about to start, with
\* the tables hs held and mk created.  Every statement starts at the point stmt.begin (top of
\* Processor.ExecuteStatement); after the last one the deferred rollback releases what is held.
StartOfP(pg, i, hs, mk) ==
  IF i > Len(pg)
    THEN IF hs \cup mk # {}
           THEN {PC("close.data_fd", f, "", "end") : f \in hs \cup mk}
           ELSE {PC("done", NoFile, "", "")}
    ELSE {PC("stmt.begin", NoFile, "", "")}
StartOf(p, i, hs, mk) == StartOfP(prog[p], i, hs, mk)

\* operation finished normally: go to the next one
OpDone(p, hs, mk) ==
  /\ \E n \in StartOf(p, ip[p] + 1, hs, mk) : pc' = [pc EXCEPT ![p] = n]
  /\ ip' = [ip EXCEPT ![p] = @ + 1]
  /\ UNCHANGED <<prog, retries, outcome>>

\* operation failed: the statement list ends, the deferred rollback releases everything
OpFail(p, err) ==
  /\ outcome' = [outcome EXCEPT ![p] = err]
  /\ \E n \in StartOf(p, Len(prog[p]) + 1, held[p], made[p]) : pc' = [pc EXCEPT ![p] = n]
  /\ ip' = [ip EXCEPT ![p] = Len(prog[p]) + 1]
  /\ UNCHANGED <<prog, retries>>

Goto(p, pt, f, cf, k) ==
  /\ pc' = [pc EXCEPT ![p] = PC(pt, f, cf, k)]
  /\ UNCHANGED <<prog, ip, retries, outcome>>

\* a failed attempt: back to the retry loop of CreateControlFileContext
Wait(p, f, k) == Goto(p, "wait.retry", f, "", k)

-----------------------------------------------------------------------------
(* A statement starts.  A table that is already held/created by this        *)
(* transaction is served from the cache (no file access); otherwise the     *)
(* path is searched first (SearchFilePath: "file does not exist").          *)

\* COMMIT writes the created tables, then the held tables that were changed; a held table without records was
\* not changed by its UPDATE (no rows affected): it is only released, after the others (ReleaseResources)
Dirty(hs) == {f \in hs : ~data[f].empty}
CommitNext(p, hs, mk) ==
  IF mk # {} THEN \E f \in mk : Goto(p, "commit.data_fd", f, "", "c")
  ELSE IF Dirty(hs) # {} THEN \E f \in Dirty(hs) : Goto(p, "commit.data_fd", f, "", "c")
  ELSE IF hs # {} THEN \E f \in hs : Goto(p, "close.data_fd", f, "", "cc")
  ELSE OpDone(p, hs, mk)

StmtBegin(p) == LET o == Op(p)  hs == held[p]  mk == made[p] IN
  /\ pc[p].pt = "stmt.begin"
  /\ CASE o.op \in {"read", "update"} ->
            IF o.f \in hs \cup mk THEN OpDone(p, hs, mk)
            ELSE IF ~data[o.f].exists THEN OpFail(p, "notexist")
            ELSE Goto(p, IF o.op = "read" THEN "read.stat" ELSE "update.stat", o.f, "", "")
       [] o.op = "create" ->
            IF o.f \in hs \cup mk THEN OpFail(p, "exists") ELSE Goto(p, "create.stat", o.f, "", "")
       [] o.op = "commit" -> CommitNext(p, hs, mk)
       [] o.op = "rollback" ->
            IF hs \cup mk = {} THEN OpDone(p, hs, mk)
            ELSE \E f \in hs \cup mk : Goto(p, "close.data_fd", f, "", "rb")
  /\ UNCHANGED <<fs, txv, ghost>>

-----------------------------------------------------------------------------
(* Acquisition for read: NewHandlerForRead -> TryCreateRLockFile            *)

ReadStat(p) == LET f == pc[p].f IN
  /\ pc[p].pt = "read.stat"
  /\ IF data[f].exists THEN Goto(p, "rlock.stat_lock", f, "", "") ELSE OpFail(p, "notexist")
  /\ UNCHANGED <<fs, txv, ghost>>

RLockStatLock(p) == LET f == pc[p].f IN
  /\ pc[p].pt = "rlock.stat_lock"
  /\ IF lockf[f] # NoProc THEN Wait(p, f, "rlock") ELSE Goto(p, "rlock.create_lock", f, "", "")
  /\ UNCHANGED <<fs, txv, ghost>>

RLockCreateLock(p) == LET f == pc[p].f IN
  /\ pc[p].pt = "rlock.create_lock"
  /\ IF lockf[f] # NoProc
       THEN Wait(p, f, "rlock") /\ UNCHANGED lockf
       ELSE lockf' = [lockf EXCEPT ![f] = p] /\ Goto(p, "rlock.create_rlock", f, "", "")
  /\ UNCHANGED <<data, rlockf, tempf, flockEx, flockSh, txv, ghost>>

RLockCreateRLock(p) == LET f == pc[p].f IN
  /\ pc[p].pt = "rlock.create_rlock"
  /\ rlockf' = [rlockf EXCEPT ![f] = @ \cup {p}]
  /\ Goto(p, "cf.close_fd", f, "lock", "rlock.acquired")      \* deferred lockFile.Close()
  /\ UNCHANGED <<data, lockf, tempf, flockEx, flockSh, txv, ghost>>

ReadOpen(p) == LET f == pc[p].f IN
  /\ pc[p].pt = "read.open"
  /\ flockEx[f] = NoProc                 \* otherwise p spins in the flock retry loop of go-file
  /\ IF data[f].exists
       THEN /\ flockSh' = [flockSh EXCEPT ![f] = @ \cup {p}]
            /\ loaded' = [loaded EXCEPT ![p][f] = data[f].ver]
            /\ Goto(p, "load.done", f, "", "read")
       ELSE /\ Goto(p, "cf.close_fd", f, "rlock", "cwe.io")    \* closeIsolatedHandler
            /\ UNCHANGED <<flockSh, loaded>>
  /\ UNCHANGED <<data, lockf, rlockf, tempf, flockEx, held, made, ghost>>

-----------------------------------------------------------------------------
(* Acquisition for update: NewHandlerForUpdate -> TryCreateLockFile,        *)
(* OpenToUpdate, TryCreateTempFile.  pc.k = "create" marks the single       *)
(* attempt made by NewHandlerForCreate (no retry loop there).               *)

UpdateStat(p) == LET f == pc[p].f IN
  /\ pc[p].pt = "update.stat"
  /\ IF data[f].exists THEN Goto(p, "lock.check", f, "", "") ELSE OpFail(p, "notexist")
  /\ UNCHANGED <<fs, txv, ghost>>

LockFailed(p, f) == IF pc[p].k = "create" THEN Goto(p, "cwe.done", f, "", "io") ELSE Wait(p, f, "")

LockCheck(p) == LET f == pc[p].f IN
  /\ pc[p].pt = "lock.check"
  /\ IF lockf[f] # NoProc \/ rlockf[f] # {} THEN LockFailed(p, f) ELSE Goto(p, "lock.create_lock", f, "", pc[p].k)
  /\ UNCHANGED <<fs, txv, ghost>>

LockCreateLock(p) == LET f == pc[p].f IN
  /\ pc[p].pt = "lock.create_lock"
  /\ IF lockf[f] # NoProc
       THEN LockFailed(p, f) /\ UNCHANGED lockf
       ELSE lockf' = [lockf EXCEPT ![f] = p] /\ Goto(p, "lock.recheck_rlock", f, "", pc[p].k)
  /\ UNCHANGED <<data, rlockf, tempf, flockEx, flockSh, txv, ghost>>

LockRecheck(p) == LET f == pc[p].f IN
  /\ pc[p].pt = "lock.recheck_rlock"
  /\ IF rlockf[f] # {}
       THEN /\ Goto(p, "cf.close_fd", f, "lock", IF pc[p].k = "create" THEN "backoff.create" ELSE "backoff")
            /\ UNCHANGED inW
       ELSE /\ IF pc[p].k = "create" THEN Goto(p, "create.create_file", f, "", "") ELSE Goto(p, "update.open", f, "", "")
            /\ inW' = [inW EXCEPT ![p] = @ \cup {f}]
  /\ UNCHANGED <<fs, txv, commits, durable>>

UpdateOpen(p) == LET f == pc[p].f IN
  /\ pc[p].pt = "update.open"
  /\ flockEx[f] = NoProc /\ flockSh[f] = {}
  /\ IF data[f].exists
       THEN flockEx' = [flockEx EXCEPT ![f] = p] /\ Goto(p, "temp.create", f, "", "")
       ELSE UNCHANGED flockEx /\ Goto(p, "cf.close_fd", f, "lock", "cwe.io")
  /\ UNCHANGED <<data, lockf, rlockf, tempf, flockSh, txv, ghost>>

TempCreate(p) == LET f == pc[p].f IN
  /\ pc[p].pt = "temp.create"
  /\ IF tempf[f] # NoProc
       THEN Wait(p, f, "temp") /\ UNCHANGED <<tempf, loaded>>
       ELSE /\ tempf' = [tempf EXCEPT ![f] = p]
            /\ loaded' = [loaded EXCEPT ![p][f] = data[f].ver]
            /\ Goto(p, "load.done", f, "", "update")
  /\ UNCHANGED <<data, lockf, rlockf, flockEx, flockSh, held, made, ghost>>

LoadDone(p) == LET f == pc[p].f IN
  /\ pc[p].pt = "load.done"
  /\ IF pc[p].k = "read"
       THEN Goto(p, "close.data_fd", f, "", "read") /\ UNCHANGED held
       ELSE held' = [held EXCEPT ![p] = @ \cup {f}] /\ OpDone(p, held[p] \cup {f}, made[p])
  /\ UNCHANGED <<fs, made, loaded, ghost>>

-----------------------------------------------------------------------------
(* CREATE TABLE: NewHandlerForCreate                                        *)

CreateStat(p) == LET f == pc[p].f IN
  /\ pc[p].pt = "create.stat"
  /\ IF data[f].exists THEN OpFail(p, "exists") ELSE Goto(p, "lock.check", f, "", "create")
  /\ UNCHANGED <<fs, txv, ghost>>

CreateFile(p) == LET f == pc[p].f IN
  /\ pc[p].pt = "create.create_file"
  /\ IF data[f].exists      \* O_EXCL fails: closeIsolatedHandler -> closeWithErrors
       THEN /\ IF RemoveOnFailedCreate THEN Goto(p, "cwe.remove_created", f, "", "io")
                                       ELSE Goto(p, "cf.close_fd", f, "lock", "cwe.io")
            /\ UNCHANGED <<data, flockEx, made>>
       ELSE /\ data' = [data EXCEPT ![f] = [exists |-> TRUE, ver |-> 0, empty |-> TRUE]]
            /\ flockEx' = [flockEx EXCEPT ![f] = p]
            /\ made' = [made EXCEPT ![p] = @ \cup {f}]
            /\ OpDone(p, held[p], made[p] \cup {f})
  /\ UNCHANGED <<lockf, rlockf, tempf, flockSh, held, loaded, ghost>>

\* closeWithErrors of a ForCreate handler that never created the file, as the pinned code had it:
\* "if h.openType == ForCreate && Exists(h.path) { os.Remove(h.path) }" (removes another process's table)
CweRemoveCreated(p) == LET f == pc[p].f IN
  /\ pc[p].pt = "cwe.remove_created"
  /\ data' = [data EXCEPT ![f].exists = FALSE]
  /\ Goto(p, "cf.close_fd", f, "lock", "cwe.io")
  /\ UNCHANGED <<lockf, rlockf, tempf, flockEx, flockSh, txv, ghost>>

-----------------------------------------------------------------------------
(* The retry loop and its timeout                                           *)

Retry(p) == LET f == pc[p].f IN
  /\ pc[p].pt = "wait.retry"
  /\ retries[p] < MaxRetries
  /\ retries' = [retries EXCEPT ![p] = @ + 1]
  /\ pc' = [pc EXCEPT ![p] = CASE pc[p].k = "rlock" -> PC("rlock.stat_lock", f, "", "")
                               [] pc[p].k = "temp"  -> PC("temp.create", f, "", "")
                               [] OTHER             -> PC("lock.check", f, "", "")]
  /\ UNCHANGED <<prog, ip, outcome, fs, txv, ghost>>

\* the wait-timeout context expires while p waits (a scheduler decision in the harness);
\* CreateControlFileContext returns a TimeoutError, closeIsolatedHandler -> closeWithErrors
Timeout(p) == LET f == pc[p].f IN
  /\ pc[p].pt = "wait.retry"
  /\ IF pc[p].k = "temp" THEN Goto(p, "cwe.data_fd", f, "", "timeout") ELSE Goto(p, "cwe.done", f, "", "timeout")
  /\ UNCHANGED <<fs, txv, ghost>>

CweDataFd(p) == LET f == pc[p].f IN
  /\ pc[p].pt = "cwe.data_fd"
  /\ flockEx' = [flockEx EXCEPT ![f] = IF @ = p THEN NoProc ELSE @]
  /\ flockSh' = [flockSh EXCEPT ![f] = @ \ {p}]
  /\ Goto(p, "cf.close_fd", f, "lock", "cwe.timeout")
  /\ UNCHANGED <<data, lockf, rlockf, tempf, txv, ghost>>

CweDone(p) ==
  /\ pc[p].pt = "cwe.done"
  /\ OpFail(p, IF pc[p].k = "timeout" THEN "timeout" ELSE "io")
  /\ UNCHANGED <<fs, txv, ghost>>

-----------------------------------------------------------------------------
(* ControlFile.Close: close fd, then remove                                 *)

CfCloseFd(p) ==
  /\ pc[p].pt = "cf.close_fd"
  /\ Goto(p, "cf.remove", pc[p].f, pc[p].cf, pc[p].k)
  /\ UNCHANGED <<fs, txv, ghost>>

\* continuation after a control file has been removed
AfterCf(p, f, cf, k) ==
  CASE k = "rlock.acquired" -> Goto(p, "read.open", f, "", "")
    [] k = "backoff"        -> Wait(p, f, "")
    [] k = "backoff.create" -> Goto(p, "cwe.done", f, "", "io")
    [] k = "cwe.io"         -> Goto(p, "cwe.done", f, "", "io")
    [] k = "cwe.timeout"    -> Goto(p, "cwe.done", f, "", "timeout")
    \* Handler.close(): temp, then lock, then rlock
    [] k \in {"read", "rb", "end", "cc"} ->
         IF cf = "temp" THEN Goto(p, "cf.close_fd", f, "lock", k) ELSE Goto(p, "close.done", f, "", k)
    \* Handler.commit(): lock only
    [] k = "c" -> Goto(p, "commit.done", f, "", k)

CfRemove(p) == LET f == pc[p].f  cf == pc[p].cf IN
  /\ pc[p].pt = "cf.remove"
  /\ lockf'  = IF cf = "lock"  THEN [lockf  EXCEPT ![f] = NoProc] ELSE lockf
  /\ rlockf' = IF cf = "rlock" THEN [rlockf EXCEPT ![f] = @ \ {p}] ELSE rlockf
  /\ tempf'  = IF cf = "temp"  THEN [tempf  EXCEPT ![f] = NoProc] ELSE tempf
  /\ inW'    = IF cf = "lock"  THEN [inW EXCEPT ![p] = @ \ {f}] ELSE inW
  /\ AfterCf(p, f, cf, pc[p].k)
  /\ UNCHANGED <<data, flockEx, flockSh, txv, commits, durable>>

-----------------------------------------------------------------------------
(* Handler.close(): after a read, on ROLLBACK, and in the deferred release  *)

CloseDataFd(p) == LET f == pc[p].f  k == pc[p].k IN
  /\ pc[p].pt = "close.data_fd"
  /\ flockEx' = [flockEx EXCEPT ![f] = IF @ = p THEN NoProc ELSE @]
  /\ flockSh' = [flockSh EXCEPT ![f] = @ \ {p}]
  /\ IF k = "read" THEN Goto(p, "cf.close_fd", f, "rlock", k)
     ELSE IF f \in made[p] THEN Goto(p, "close.remove_created", f, "", k)
     ELSE Goto(p, "cf.close_fd", f, "temp", k)
  /\ UNCHANGED <<data, lockf, rlockf, tempf, txv, ghost>>

CloseRemoveCreated(p) == LET f == pc[p].f IN
  /\ pc[p].pt = "close.remove_created"
  /\ data' = [data EXCEPT ![f].exists = FALSE]
  /\ Goto(p, "cf.close_fd", f, "lock", pc[p].k)
  /\ UNCHANGED <<lockf, rlockf, tempf, flockEx, flockSh, txv, ghost>>

CloseDone(p) == LET f == pc[p].f  k == pc[p].k
                    hs == held[p] \ {f}  mk == made[p] \ {f} IN
  /\ pc[p].pt = "close.done"
  /\ held' = [held EXCEPT ![p] = hs]
  /\ made' = [made EXCEPT ![p] = mk]
  /\ loaded' = [loaded EXCEPT ![p][f] = -1]
  /\ CASE k = "read" -> OpDone(p, held[p], made[p])
       [] k = "cc"   -> CommitNext(p, hs, mk)
       [] k = "rb"   -> IF hs \cup mk = {}
                          THEN OpDone(p, {}, {})
                          ELSE \E g \in hs \cup mk : Goto(p, "close.data_fd", g, "", "rb")
       [] k = "end"  -> /\ \E n \in StartOf(p, Len(prog[p]) + 1, hs, mk) : pc' = [pc EXCEPT ![p] = n]
                        /\ UNCHANGED <<prog, ip, retries, outcome>>
  /\ UNCHANGED <<fs, ghost>>

-----------------------------------------------------------------------------
(* Handler.commit()                                                         *)

CommitDataFd(p) == LET f == pc[p].f IN
  /\ pc[p].pt = "commit.data_fd"
  /\ flockEx' = [flockEx EXCEPT ![f] = IF @ = p THEN NoProc ELSE @]
  /\ IF f \in made[p]
       THEN Goto(p, "commit.swapped", f, "", "c")     \* created table: written in place, no temp file
       ELSE Goto(p, "commit.temp_fd", f, "", "c")
  /\ UNCHANGED <<data, lockf, rlockf, tempf, flockSh, txv, ghost>>

CommitTempFd(p) == LET f == pc[p].f IN
  /\ pc[p].pt = "commit.temp_fd"
  /\ IF RemoveBeforeRename /\ data[f].exists
       THEN Goto(p, "commit.remove_orig", f, "", "c")
       ELSE Goto(p, "commit.rename", f, "", "c")
  /\ UNCHANGED <<fs, txv, ghost>>

CommitRemoveOrig(p) == LET f == pc[p].f IN
  /\ pc[p].pt = "commit.remove_orig"
  /\ data' = [data EXCEPT ![f].exists = FALSE]
  /\ Goto(p, "commit.rename", f, "", "c")
  /\ UNCHANGED <<lockf, rlockf, tempf, flockEx, flockSh, txv, ghost>>

CommitRename(p) == LET f == pc[p].f IN
  /\ pc[p].pt = "commit.rename"
  /\ data' = [data EXCEPT ![f] = [exists |-> TRUE, ver |-> loaded[p][f] + 1, empty |-> FALSE]]
  /\ tempf' = [tempf EXCEPT ![f] = NoProc]
  /\ commits' = [commits EXCEPT ![f] = @ + 1]
  /\ Goto(p, "commit.swapped", f, "", "c")
  /\ UNCHANGED <<lockf, rlockf, flockEx, flockSh, txv, inW, durable>>

CommitSwapped(p) == LET f == pc[p].f IN
  /\ pc[p].pt = "commit.swapped"
  /\ durable' = durable \cup {f}
  /\ Goto(p, "cf.close_fd", f, "lock", "c")
  /\ UNCHANGED <<fs, txv, commits, inW>>

CommitDone(p) == LET f == pc[p].f
                     hs == held[p] \ {f}  mk == made[p] \ {f} IN
  /\ pc[p].pt = "commit.done"
  /\ held' = [held EXCEPT ![p] = hs]
  /\ made' = [made EXCEPT ![p] = mk]
  /\ loaded' = [loaded EXCEPT ![p][f] = -1]
  /\ CommitNext(p, hs, mk)
  /\ UNCHANGED <<fs, ghost>>

-----------------------------------------------------------------------------
\* the process (goroutine) ends: reports its outcome
Finish(p) ==
  /\ pc[p].pt = "done"
  /\ pc' = [pc EXCEPT ![p] = PC("exited", NoFile, "", "")]
  /\ outcome' = [outcome EXCEPT ![p] = IF @ = "run" THEN "ok" ELSE @]
  /\ UNCHANGED <<prog, ip, retries, fs, txv, ghost>>

\* the process dies (SIGKILL, power loss): descriptors and flocks vanish, files stay
Crash(p) ==
  /\ AllowCrash
  /\ pc[p].pt \notin {"done", "exited", "crashed"}
  /\ pc' = [pc EXCEPT ![p] = PC("crashed", pc[p].f, "", "")]
  /\ outcome' = [outcome EXCEPT ![p] = "crashed"]
  /\ flockEx' = [f \in Files |-> IF flockEx[f] = p THEN NoProc ELSE flockEx[f]]
  /\ flockSh' = [f \in Files |-> flockSh[f] \ {p}]
  /\ UNCHANGED <<prog, ip, retries, data, lockf, rlockf, tempf, txv, ghost>>

Step(p) ==
  \/ StmtBegin(p)
  \/ ReadStat(p) \/ RLockStatLock(p) \/ RLockCreateLock(p) \/ RLockCreateRLock(p) \/ ReadOpen(p)
  \/ UpdateStat(p) \/ LockCheck(p) \/ LockCreateLock(p) \/ LockRecheck(p) \/ UpdateOpen(p) \/ TempCreate(p)
  \/ LoadDone(p) \/ CreateStat(p) \/ CreateFile(p) \/ CweRemoveCreated(p)
  \/ Retry(p) \/ CweDataFd(p) \/ CweDone(p)
  \/ CfCloseFd(p) \/ CfRemove(p)
  \/ CloseDataFd(p) \/ CloseRemoveCreated(p) \/ CloseDone(p)
  \/ CommitDataFd(p) \/ CommitTempFd(p) \/ CommitRemoveOrig(p) \/ CommitRename(p) \/ CommitSwapped(p) \/ CommitDone(p)
  \/ Finish(p)

Next == \E p \in Procs : Step(p) \/ Timeout(p) \/ Crash(p)

InitWith(pr) ==
  /\ prog = pr
  /\ ip = [p \in Procs |-> 1]
  /\ pc = [p \in Procs |-> CHOOSE n \in StartOf(p, 1, {}, {}) : TRUE]
  /\ retries = [p \in Procs |-> 0]
  /\ outcome = [p \in Procs |-> "run"]
  /\ data = [f \in Files |-> [exists |-> f \in InitExists, ver |-> 0, empty |-> FALSE]]
  /\ lockf = [f \in Files |-> NoProc]
  /\ rlockf = [f \in Files |-> {}]
  /\ tempf = [f \in Files |-> NoProc]
  /\ flockEx = [f \in Files |-> NoProc]
  /\ flockSh = [f \in Files |-> {}]
  /\ held = [p \in Procs |-> {}]
  /\ made = [p \in Procs |-> {}]
  /\ loaded = [p \in Procs |-> [f \in Files |-> -1]]
  /\ commits = [f \in Files |-> 0]
  /\ inW = [p \in Procs |-> {}]
  /\ durable = InitExists

Init == \E pr \in [Procs -> Programs] : InitWith(pr)

Spec == Init /\ [][Next]_vars /\ \A p \in Procs : WF_vars(Step(p) \/ Timeout(p))

-----------------------------------------------------------------------------
(* Properties                                                               *)

\* C09: while one process holds a table for update no other process holds, reads or writes it
WriterExcludesAll ==
  \A f \in Files : \A p, q \in Procs :
     (p # q /\ f \in inW[p]) => /\ f \notin inW[q]
                                /\ q \notin rlockf[f] /\ q \notin flockSh[f]
                                /\ flockEx[f] \in {NoProc, p}
                                /\ tempf[f] \in {NoProc, p}

\* what a transaction believes it holds, it does hold
HeldImpliesExclusive ==
  \A p \in Procs : \A f \in held[p] \cup made[p] : f \in inW[p] \/ (pc[p].f = f /\ pc[p].pt \in {"commit.done", "close.done", "crashed"})

\* C09: while a process is reading, none can start writing
ReaderExcludesWriterStart ==
  \A f \in Files : flockSh[f] # {} => flockEx[f] = NoProc /\ tempf[f] = NoProc /\ (\A p \in Procs : f \notin inW[p])

\* the second line of defence is never needed: nobody ever waits for a flock while the lock files work
FlockNeverContended ==
  \A p \in Procs : LET f == pc[p].f IN
     /\ pc[p].pt = "read.open"   => flockEx[f] = NoProc
     /\ pc[p].pt = "update.open" => flockEx[f] = NoProc /\ flockSh[f] = {}

\* C09: every committed change survives (each swap installs what it read + 1, on top of the latest)
NoLostUpdate ==
  /\ \A f \in Files : data[f].ver = commits[f]
  /\ \A p \in Procs : pc[p].pt = "commit.rename" => loaded[p][pc[p].f] = data[pc[p].f].ver

\* C09: a lock timeout changes nothing (action property over the timeout path)
OnTimeoutPath(p) == pc[p].pt = "wait.retry" \/ (pc[p].pt \in {"cwe.data_fd", "cwe.done"} /\ pc[p].k = "timeout")
                    \/ (pc[p].pt \in {"cf.close_fd", "cf.remove"} /\ pc[p].k = "cwe.timeout")
TimeoutHarmless == [][\A p \in Procs : (OnTimeoutPath(p) /\ pc'[p] # pc[p]) => data' = data]_vars

Owned(p) == {f \in Files : lockf[f] = p \/ p \in rlockf[f] \/ tempf[f] = p}

\* C11: a process that ended (not by an uncatchable kill) owns no control file, no descriptor,
\* and no uncommitted created table
CleanExit ==
  \A p \in Procs : pc[p].pt \in {"done", "exited"} =>
       /\ Owned(p) = {} /\ held[p] = {} /\ made[p] = {} /\ inW[p] = {}
       /\ \A f \in Files : flockEx[f] # p /\ p \notin flockSh[f]

\* C09: documented outcomes only ("notexist" for a table that exists, "io" = anything else, are not)
OutcomeDocumented == \A p \in Procs : outcome[p] \in {"run", "ok", "timeout", "exists", "crashed"}

\* C10 / C09: a table that exists (initially, or by a committed CREATE) is present at every instant
Durable == \A f \in durable : data[f].exists

\* C10: whatever happens (crashes included) a durable table holds a complete version that some
\* commit installed: the old one or the new one
CrashLeavesOldOrNew == \A f \in durable : data[f].exists /\ data[f].ver = commits[f]

AllDone == \A p \in Procs : pc[p].pt \in {"exited", "crashed"}
Termination == <>AllDone

\* at quiescence nothing is left behind and the counter equals the number of commits
QuiescentClean ==
  AllDone /\ (\A p \in Procs : outcome[p] # "crashed") =>
     \A f \in Files : lockf[f] = NoProc /\ rlockf[f] = {} /\ tempf[f] = NoProc /\ flockEx[f] = NoProc /\ flockSh[f] = {}

\* compact projection of the directory, as the harness observes it
\* (a created table is an empty file (ver -3) until Transaction.Commit encodes it, which happens
\* before the first Handler.commit of that COMMIT)
DirOf(f) == [lock |-> lockf[f] # NoProc, nrlock |-> Cardinality(rlockf[f]), temp |-> tempf[f] # NoProc,
             exists |-> data[f].exists,
             ver |-> IF ~data[f].exists THEN -1 ELSE IF f \notin durable /\ (\E p \in Procs : f \in made[p] /\ pc[p].k # "c") THEN -3 ELSE data[f].ver]
=============================================================================
