CONSTANTS
  Fuel = 12
  ProgSet <- CursorPrograms
INIT Init
NEXT Next
CONSTRAINT Emit
CHECK_DEADLOCK FALSE
