CONSTANTS
  Files = {"f1", "f2"}
  NewFile = "f3"
  SubFile = "g1"
  TempT = "tt"
  Keys = {0}
  Vals = {0}
  MaxRows = 1000000
  Script = FALSE
  WithEnv = TRUE
INIT TraceInit
NEXT TraceNext
INVARIANTS DirtyLoaded
POSTCONDITION TraceAccepted
CHECK_DEADLOCK FALSE
