INIT Init
NEXT Next
INVARIANTS OrderLaws CutLaws
CHECK_DEADLOCK FALSE
