CONSTANTS
  Procs <- Procs2
  Files <- Files1
  Programs <- ProgsCreate
  InitExists <- None
  RemoveBeforeRename = FALSE
  RemoveOnFailedCreate = FALSE
  AllowCrash = FALSE
  MaxRetries = 1
SPECIFICATION Spec
INVARIANTS WriterExcludesAll HeldImpliesExclusive ReaderExcludesWriterStart FlockNeverContended NoLostUpdate CleanExit Durable QuiescentClean
PROPERTIES TimeoutHarmless Termination
CHECK_DEADLOCK FALSE
