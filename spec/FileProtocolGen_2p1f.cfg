CONSTANTS
  Procs <- Procs2
  Files <- Files1
  Programs <- ProgsOneFile
  InitExists <- Files1
  RemoveBeforeRename = FALSE
  RemoveOnFailedCreate = FALSE
  AllowCrash = FALSE
  MaxRetries = 2
INIT GenInit
NEXT GenNext
CONSTRAINT Emit
CHECK_DEADLOCK FALSE
