CONSTANTS
  Leaves = {0, 1, 2, 3, 7}
  MaxSteps = 13
INIT Init
NEXT Next
CONSTRAINT Emit
CHECK_DEADLOCK FALSE
